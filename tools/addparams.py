#!/usr/bin/env python3
"""Copies the params= list of each function from the frozen .guards tables into the hand-written
.proto/.order files, so that a later rename of a parameter can be followed positionally."""
import glob, re, sys
params = {}
for f in glob.glob('/verif/rules/*.guards'):
    for ln in open(f):
        m = re.match(r'func (\S+) .*?params=(\S*)', ln)
        if m: params[m.group(1)] = m.group(2)
missing = set()
for f in glob.glob('/verif/rules/*.proto') + glob.glob('/verif/rules/*.order'):
    out = []
    for ln in open(f):
        m = re.match(r'func (\S+)(.*)$', ln.rstrip('\n'))
        if m:
            name, rest = m.group(1), m.group(2)
            rest = re.sub(r'\s*params=\S*', '', rest)
            if name in params:
                rest = ' params=' + params[name] + rest
            else:
                missing.add(name)
            ln = 'func ' + name + rest + '\n'
        out.append(ln)
    open(f, 'w').write(''.join(out))
for m in sorted(missing): print('no frozen params for', m)
