#!/usr/bin/env python3
"""freeze.py <out.guards> <refs.tsv|-> func[@mode] ...  — run `btcdlint discover` and write a
guards file (for review!). Existing 'avoid-ok' lines and header comments of the output file are kept."""
import subprocess, sys, re, os
out = sys.argv[1]; refs = sys.argv[2]; funcs = sys.argv[3:]
refmap = {}
if refs != '-':
    for ln in open(refs):
        ln = ln.rstrip('\n')
        if not ln or ln.startswith('#'): continue
        k, v = ln.split('\t', 1)
        refmap[k] = v
keep = []
if os.path.exists(out):
    for ln in open(out):
        if ln.startswith('#') or ln.strip().startswith('avoid-ok'):
            keep.append(ln.rstrip('\n'))
raw = subprocess.run(['/verif/bin/btcdlint', 'discover'] + funcs, capture_output=True, text=True).stdout
lines = [l for l in keep if l.startswith('#')]
newavoid = []
avoid = []
for ln in raw.split('\n'):
    if ln.startswith('ERR'):
        print(ln, file=sys.stderr); sys.exit(1)
    if '# return' in ln or not ln.strip(): continue
    pos = ''
    if '    # ' in ln:
        ln, pos = ln.split('    # ', 1)
    ref = ''
    for k, v in refmap.items():
        if k in ln:
            ref = v; break
    lines.append(ln.rstrip() + (('    # ' + ref) if ref else ''))
    if 'AVOIDABLE' in pos:
        print('NOTE avoidable:', ln.strip()[:160], '::', pos, file=sys.stderr)
        a = '  avoid-ok ' + ln.strip()[len('guard '):]
        lines.append(a + '    # early-accept exit (frozen under "exit"): ' + pos.split('AVOIDABLE: ')[1])
open(out, 'w').write('\n'.join(lines) + '\n')
print('wrote', out, sum(1 for l in lines if l.strip().startswith('guard')), 'guards', sum(1 for l in lines if l.strip().startswith('exit')), 'exits')
