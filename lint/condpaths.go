package main

import (
	"go/constant"
	"go/token"
	"sort"
	"strings"

	"golang.org/x/tools/go/ssa"
)

// A branch on a boolean that was computed earlier — `ok := a && b; if !ok {…}`, or the result of an
// unreviewed predicate helper — is the same decision as branching on the expression directly. go/ssa
// lowers `if a && b` to a chain of branches but `ok := a && b` to a phi; condPaths unfolds such a
// value into the conjunctions under which it has the wanted truth value, which are exactly the
// conjunction sets the chain of branches yields.
//
// guard=true mimics what the guard computation does for a chain of rejecting branches: an edge
// whose other side already yields the wanted value ("the earlier alternative did not fire") is not
// part of the later alternative's set.

const maxCondPaths = 8

func (f *FuncFacts) condPaths(cond ssa.Value, want bool, guard bool, depth int) ([][]string, bool) {
	if depth > 4 {
		return nil, false
	}
	switch v := cond.(type) {
	case *ssa.UnOp:
		if v.Op == token.NOT {
			return f.condPaths(v.X, !want, guard, depth)
		}
	case *ssa.Const:
		if v.Value != nil && v.Value.Kind() == constant.Bool {
			if constant.BoolVal(v.Value) == want {
				return [][]string{{}}, true
			}
			return nil, true
		}
	case *ssa.Call:
		hf := f.c.inlined(v.Common())
		if hf == nil || hf.mode != rejNone || v.Common().Signature().Results().Len() != 1 {
			break
		}
		var out [][]string
		for _, ri := range hf.rets {
			if ri.ins == nil || len(ri.ins.Results) != 1 {
				return nil, false
			}
			rv := unspill(ri.ins.Results[0], ri.blk)
			sub, ok := hf.condPaths(rv, want, guard, depth+1)
			if !ok {
				return nil, false
			}
			base := hf.leafContext(ri.blk, nil, want, guard)
			for _, p := range sub {
				out = append(out, append(append([]string{}, base...), p...))
			}
		}
		if len(out) > maxCondPaths {
			return nil, false
		}
		return out, true
	case *ssa.Phi:
		if v.Parent() != f.fn || len(v.Edges) < 2 || len(v.Edges) > 4 {
			break
		}
		for i := range v.Edges {
			if v.Block().Dominates(v.Block().Preds[i]) {
				return nil, false // loop-carried
			}
		}
		var out [][]string
		for i, e := range v.Edges {
			pred := v.Block().Preds[i]
			sub, ok := f.condPaths(e, want, guard, depth+1)
			if !ok {
				return nil, false
			}
			if len(sub) == 0 {
				continue
			}
			base := f.leafContext(pred, v, want, guard)
			if iff := f.ifOf(pred); iff != nil && pred.Succs[0] != pred.Succs[1] {
				for k, sc := range pred.Succs {
					if sc == v.Block() {
						base = append(base, f.c.condAtom(iff.Cond, k == 0))
					}
				}
			}
			for _, p := range sub {
				out = append(out, append(append([]string{}, base...), p...))
			}
		}
		if len(out) > maxCondPaths {
			return nil, false
		}
		return out, true
	}
	return [][]string{{f.c.condAtom(cond, want)}}, true
}

// yields: taking edge (d,k) produces the wanted truth value at once — the phi gets the constant
// `want` from d, or the edge leads to a return of the constant `want`.
func (f *FuncFacts) yields(d *ssa.BasicBlock, k int, ph *ssa.Phi, want bool) bool {
	t := d.Succs[k]
	if ph != nil && t == ph.Block() {
		for i, p := range t.Preds {
			if p == d {
				if c, ok := ph.Edges[i].(*ssa.Const); ok && c.Value != nil && c.Value.Kind() == constant.Bool {
					return constant.BoolVal(c.Value) == want
				}
			}
		}
		return false
	}
	if ph == nil {
		if ri := f.retOf[t]; ri != nil && ri.ins != nil && len(ri.ins.Results) == 1 && len(t.Preds) == 1 {
			if c, ok := unspill(ri.ins.Results[0], t).(*ssa.Const); ok && c.Value != nil && c.Value.Kind() == constant.Bool {
				return constant.BoolVal(c.Value) == want
			}
		}
	}
	return false
}

// leafContext: the branch atoms needed to reach block b (a predecessor of the phi, or a returning
// block of a predicate helper).
func (f *FuncFacts) leafContext(b *ssa.BasicBlock, ph *ssa.Phi, want bool, guard bool) []string {
	rejEdge, _ := f.rejEdges()
	var atoms []string
	for _, c := range f.context(b, rejEdge) {
		if guard && f.yields(c.blk, 1-c.succ, ph, want) {
			continue
		}
		atoms = append(atoms, c.atom)
	}
	return atoms
}

func pathKey(p []string) string {
	q := simplifyAtoms(append([]string{}, p...))
	sort.Strings(q)
	return strings.Join(q, " && ")
}

func (f *FuncFacts) isInlinedCall(v ssa.Value) bool {
	for {
		u, ok := v.(*ssa.UnOp)
		if !ok || u.Op != token.NOT {
			break
		}
		v = u.X
	}
	call, ok := v.(*ssa.Call)
	return ok && f.c.inlined(call.Common()) != nil
}
