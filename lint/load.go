package main

import (
	"fmt"
	"go/token"
	"go/types"
	"os"
	"path/filepath"
	"sort"
	"strings"

	"golang.org/x/tools/go/packages"
	"golang.org/x/tools/go/ssa"
	"golang.org/x/tools/go/ssa/ssautil"
)

// Program is the loaded, type-checked and SSA-built view of /repo's working
// tree: the nine workspace modules in one program and v2transport as a second.
type Program struct {
	Fset    *token.FileSet
	Pkgs    []*packages.Package          // all packages of the main workspace (roots)
	All     map[string]*packages.Package // by import path, incl. deps
	SSA     *ssa.Program
	SSAPkgs map[string]*ssa.Package
	NFuncs  int
	V2      *Program // v2transport loaded from /repo/v2transport (nil inside V2 itself)
	Repo    string
}

const goRoot = "/opt/veriftools/go1.26.8"

var workspaceMods = []string{"", "address", "btcec", "btcutil", "chaincfg", "chainhash", "psbt", "txscript", "wire"}

func repoDir() string {
	if d := os.Getenv("VERIF_REPO"); d != "" {
		return d
	}
	return "/repo"
}

func verifDir() string {
	if d := os.Getenv("VERIF_DIR"); d != "" {
		return d
	}
	return "/verif"
}

func baseEnv() []string {
	var env []string
	for _, kv := range os.Environ() {
		k := kv[:strings.Index(kv, "=")]
		switch k {
		case "GOWORK", "GOFLAGS", "GOTOOLCHAIN", "GOPROXY", "GOSUMDB", "PATH", "GOROOT", "GOOS", "GOARCH", "CGO_ENABLED":
			continue
		}
		env = append(env, kv)
	}
	env = append(env,
		"PATH="+goRoot+"/bin:"+os.Getenv("PATH"),
		"GOTOOLCHAIN=local", "GOPROXY=off", "CGO_ENABLED=0")
	return env
}

// writeWorkspace writes the go.work that makes the working tree's own copies of
// the sub-modules the ones that are analysed.
func writeWorkspace(repo string) (string, error) {
	dir := filepath.Join(verifDir(), ".work", fmt.Sprintf("w%d", os.Getpid()))
	if err := os.MkdirAll(dir, 0o755); err != nil {
		return "", err
	}
	var b strings.Builder
	b.WriteString("go 1.26.8\n\nuse (\n")
	for _, m := range workspaceMods {
		b.WriteString("\t" + filepath.Join(repo, m) + "\n")
	}
	b.WriteString(")\n")
	p := filepath.Join(dir, "go.work")
	return p, os.WriteFile(p, []byte(b.String()), 0o644)
}

type LoadOpts struct {
	GOOS, GOARCH string
	Overlay      map[string][]byte
	NoSSA        bool
}

// overlayFromEnv: VERIF_OVERLAY_DIR holds files (by path relative to the repository root) that
// replace the tree's files in memory: used by the self-test to analyse a mutated program
// without writing to /repo.
func overlayFromEnv(repo string) (map[string][]byte, error) {
	dir := os.Getenv("VERIF_OVERLAY_DIR")
	if dir == "" {
		return nil, nil
	}
	out := map[string][]byte{}
	err := filepath.Walk(dir, func(path string, info os.FileInfo, err error) error {
		if err != nil || info.IsDir() {
			return err
		}
		rel, _ := filepath.Rel(dir, path)
		b, err := os.ReadFile(path)
		if err != nil {
			return err
		}
		out[filepath.Join(repo, rel)] = b
		return nil
	})
	return out, err
}

func loadProgram(opts LoadOpts) (*Program, error) {
	repo := repoDir()
	if opts.Overlay == nil {
		ov, err := overlayFromEnv(repo)
		if err != nil {
			return nil, err
		}
		opts.Overlay = ov
	}
	if opts.GOOS == "" {
		opts.GOOS = os.Getenv("VERIF_GOOS")
	}
	if opts.GOARCH == "" {
		opts.GOARCH = os.Getenv("VERIF_GOARCH")
	}
	work, err := writeWorkspace(repo)
	if err != nil {
		return nil, err
	}
	defer os.RemoveAll(filepath.Dir(work))
	env := append(baseEnv(), "GOWORK="+work, "GOFLAGS=")
	if opts.GOOS != "" {
		env = append(env, "GOOS="+opts.GOOS)
	}
	if opts.GOARCH != "" {
		env = append(env, "GOARCH="+opts.GOARCH)
	}
	fset := token.NewFileSet()
	var patterns []string
	for _, m := range workspaceMods {
		patterns = append(patterns, filepath.Join(repo, m)+"/...")
	}
	cfg := &packages.Config{
		Mode:    packages.LoadAllSyntax,
		Dir:     repo,
		Env:     env,
		Fset:    fset,
		Overlay: opts.Overlay,
	}
	pkgs, err := packages.Load(cfg, patterns...)
	if err != nil {
		return nil, fmt.Errorf("load workspace: %w", err)
	}
	p, err := finish(fset, pkgs, repo, opts)
	if err != nil {
		return nil, err
	}
	// second program: v2transport from the tree
	env2 := append(baseEnv(), "GOWORK=off", "GOFLAGS=-mod=mod")
	if opts.GOOS != "" {
		env2 = append(env2, "GOOS="+opts.GOOS)
	}
	if opts.GOARCH != "" {
		env2 = append(env2, "GOARCH="+opts.GOARCH)
	}
	cfg2 := &packages.Config{
		Mode:    packages.LoadAllSyntax,
		Dir:     filepath.Join(repo, "v2transport"),
		Env:     env2,
		Fset:    fset,
		Overlay: opts.Overlay,
	}
	pkgs2, err := packages.Load(cfg2, "./...")
	if err != nil {
		return nil, fmt.Errorf("load v2transport: %w", err)
	}
	p2, err := finish(fset, pkgs2, repo, opts)
	if err != nil {
		return nil, err
	}
	p.V2 = p2
	if !opts.NoSSA {
		detectRenames(p)
	}
	detectFieldRenames(p)
	return p, nil
}

func finish(fset *token.FileSet, pkgs []*packages.Package, repo string, opts LoadOpts) (*Program, error) {
	if len(pkgs) == 0 {
		return nil, fmt.Errorf("zero packages loaded")
	}
	p := &Program{Fset: fset, Pkgs: pkgs, All: map[string]*packages.Package{}, SSAPkgs: map[string]*ssa.Package{}, Repo: repo}
	var errs []string
	packages.Visit(pkgs, nil, func(pk *packages.Package) {
		p.All[pk.PkgPath] = pk
		if strings.HasPrefix(pk.PkgPath, "github.com/btcsuite/btcd") {
			for _, e := range pk.Errors {
				errs = append(errs, e.Error())
			}
		}
	})
	if len(errs) > 0 {
		sort.Strings(errs)
		if len(errs) > 10 {
			errs = errs[:10]
		}
		return nil, fmt.Errorf("type/load errors in analysed packages:\n  %s", strings.Join(errs, "\n  "))
	}
	if opts.NoSSA {
		return p, nil
	}
	prog, spkgs := ssautil.AllPackages(pkgs, ssa.InstantiateGenerics)
	prog.Build()
	p.SSA = prog
	for i, sp := range spkgs {
		if sp != nil {
			p.SSAPkgs[pkgs[i].PkgPath] = sp
		}
	}
	for _, sp := range prog.AllPackages() {
		if _, ok := p.SSAPkgs[sp.Pkg.Path()]; !ok {
			p.SSAPkgs[sp.Pkg.Path()] = sp
		}
	}
	p.NFuncs = len(ssautil.AllFunctions(prog))
	return p, nil
}

// ---- lookup helpers (anchors resolve by object identity, never by text position)

func (p *Program) Pkg(path string) *packages.Package {
	if pk := p.All[path]; pk != nil {
		return pk
	}
	if p.V2 != nil {
		return p.V2.All[path]
	}
	return nil
}

// progFor returns the program that holds pkg path as a root from the tree.
func (p *Program) progFor(path string) *Program {
	if strings.HasPrefix(path, "github.com/btcsuite/btcd/v2transport") && p.V2 != nil {
		return p.V2
	}
	return p
}

// Func resolves "pkgpath.Func" or "pkgpath.(*T).Method" / "pkgpath.(T).Method"
// or "pkgpath.Func$1" (anonymous function by index).
func (p *Program) Func(name string) *ssa.Function {
	if fn := p.funcLookup(name); fn != nil {
		return fn
	}
	// the reviewed function under a new name (inline.go: detectRenames)
	base, anon := name, ""
	if i := strings.Index(name, "$"); i >= 0 {
		base, anon = name[:i], name[i:]
	}
	if fn := renamedTo[tableNameToID(base)]; fn != nil {
		return p.funcLookup(fullFuncName0(fn) + anon)
	}
	return nil
}

func (p *Program) funcLookup(name string) *ssa.Function {
	anon := ""
	if i := strings.Index(name, "$"); i >= 0 {
		anon = name[i+1:]
		name = name[:i]
	}
	var fn *ssa.Function
	if i := strings.Index(name, ".("); i >= 0 {
		path := name[:i]
		rest := name[i+2:]
		j := strings.Index(rest, ").")
		tname := strings.TrimPrefix(rest[:j], "*")
		ptr := strings.HasPrefix(rest[:j], "*")
		mname := rest[j+2:]
		pp := p.progFor(path)
		sp := pp.SSAPkgs[path]
		if sp == nil {
			return nil
		}
		tn, _ := sp.Pkg.Scope().Lookup(tname).(*types.TypeName)
		if tn == nil {
			return nil
		}
		var T types.Type = tn.Type()
		if ptr {
			T = types.NewPointer(T)
		}
		sel := pp.SSA.MethodSets.MethodSet(T).Lookup(sp.Pkg, mname)
		if sel == nil {
			return nil
		}
		fn = pp.SSA.MethodValue(sel)
	} else {
		i := strings.LastIndex(name, ".")
		path, fname := name[:i], name[i+1:]
		pp := p.progFor(path)
		sp := pp.SSAPkgs[path]
		if sp == nil {
			return nil
		}
		fn = sp.Func(fname)
		if fn == nil {
			// bare method name: unique method of that name on any type of the package
			var found []*ssa.Function
			names := sp.Pkg.Scope().Names()
			for _, n := range names {
				tn, ok := sp.Pkg.Scope().Lookup(n).(*types.TypeName)
				if !ok {
					continue
				}
				if _, isIface := tn.Type().Underlying().(*types.Interface); isIface {
					continue
				}
				seen := map[*ssa.Function]bool{}
				for _, T := range []types.Type{tn.Type(), types.NewPointer(tn.Type())} {
					sel := pp.SSA.MethodSets.MethodSet(T).Lookup(sp.Pkg, fname)
					if sel == nil {
						continue
					}
					m := pp.SSA.MethodValue(sel)
					if m != nil && m.Synthetic == "" && !seen[m] {
						seen[m] = true
						found = append(found, m)
					}
				}
			}
			if len(found) == 1 {
				fn = found[0]
			}
		}
	}
	if fn == nil {
		return nil
	}
	for anon != "" {
		part := anon
		if i := strings.Index(anon, "$"); i >= 0 {
			part, anon = anon[:i], anon[i+1:]
		} else {
			anon = ""
		}
		var idx int
		fmt.Sscanf(part, "%d", &idx)
		if idx < 1 || idx > len(fn.AnonFuncs) {
			return nil
		}
		fn = fn.AnonFuncs[idx-1]
	}
	return fn
}

func (p *Program) pos(pos token.Pos) string {
	if !pos.IsValid() {
		return "-"
	}
	ps := p.Fset.Position(pos)
	f := ps.Filename
	if rel, err := filepath.Rel(p.Repo, f); err == nil && !strings.HasPrefix(rel, "..") {
		f = rel
	}
	return fmt.Sprintf("%s:%d", f, ps.Line)
}

const btcd = "github.com/btcsuite/btcd"

// short strips the module prefix for display / canonical strings.
func short(s string) string {
	s = strings.ReplaceAll(s, btcd+"/", "")
	return s
}
