package main

import "fmt"

// hand-written order/mustpass rule files (E2) per property
func init() {
	for i := 1; i <= 20; i++ {
		id := fmt.Sprintf("C%02d", i)
		extra(id, func(p *Program, r *Report) {
			if id != "C01" && id != "C10" && guardsFileExists(id+".order") {
				checkGuardsFile(p, r, id+".order")
			}
			if guardsFileExists(id + ".proto") {
				checkGuardsFile(p, r, id+".proto")
			}
		})
	}
}
