package main

import (
	"bytes"
	"encoding/json"
	"fmt"
	"go/ast"
	"go/format"
	"go/token"
	"os"
	"os/exec"
	"path/filepath"
	"sort"
	"strings"
	"sync"
)

// Thorough tier = quick rules, plus
//  (a) the same rules on the linux/386 and windows/amd64 configurations (build-tagged files),
//  (b) a two-way self-test: typed single-site mutants of the CURRENT source (comparison operator
//      of a reviewed guard flipped; the stored seeded changes of /verif/seeded) are applied in
//      memory through packages.Config.Overlay in a sub-process each, and the property's check
//      must fail on every one of them. A mutant that no longer applies is "not applicable today".

type subResult struct {
	name       string
	exit       int
	violations int
	firstLines []string
	err        string
}

func runSub(prop string, env []string, name string) subResult {
	tmp, err := os.MkdirTemp("", "btcdlint-ev-")
	if err != nil {
		return subResult{name: name, exit: -1, err: err.Error()}
	}
	defer os.RemoveAll(tmp)
	self, _ := os.Executable()
	cmd := exec.Command(self, "check", prop, "--tier", "quick")
	cmd.Env = append(os.Environ(), append(env, "VERIF_EVIDENCE_DIR="+tmp, "VERIF_TIER=quick")...)
	var out bytes.Buffer
	cmd.Stdout = &out
	cmd.Stderr = &out
	err = cmd.Run()
	res := subResult{name: name}
	if ee, ok := err.(*exec.ExitError); ok {
		res.exit = ee.ExitCode()
	} else if err != nil {
		res.exit = -1
		res.err = err.Error()
	}
	if b, e := os.ReadFile(filepath.Join(tmp, prop+".json")); e == nil {
		var ev struct {
			Violations int `json:"violations"`
		}
		json.Unmarshal(b, &ev)
		res.violations = ev.Violations
	}
	for _, ln := range strings.Split(out.String(), "\n") {
		if strings.Contains(ln, ": ") && !strings.HasPrefix(ln, "property") && !strings.HasPrefix(ln, "VIOLATION") && !strings.HasPrefix(ln, "KNOWN") && len(res.firstLines) < 2 {
			if len(ln) > 260 {
				ln = ln[:260]
			}
			res.firstLines = append(res.firstLines, ln)
		}
	}
	return res
}

var flipOp = map[token.Token]token.Token{token.GTR: token.GEQ, token.GEQ: token.GTR, token.LSS: token.LEQ, token.LEQ: token.LSS, token.EQL: token.NEQ, token.NEQ: token.EQL}

// operatorMutant writes a copy of the file with the comparison at offset flipped into dir.
func operatorMutant(p *Program, mt mutTarget, dir string) (string, bool) {
	for _, prog := range []*Program{p, p.V2} {
		for _, pk := range prog.All {
			for i, f := range pk.Syntax {
				if i >= len(pk.CompiledGoFiles) || pk.CompiledGoFiles[i] != mt.file {
					continue
				}
				var target *ast.BinaryExpr
				ast.Inspect(f, func(n ast.Node) bool {
					if be, ok := n.(*ast.BinaryExpr); ok && prog.Fset.Position(be.OpPos).Offset == mt.pos {
						target = be
					}
					return true
				})
				if target == nil {
					return "", false
				}
				nop, ok := flipOp[target.Op]
				if !ok {
					return "", false
				}
				old := target.Op
				target.Op = nop
				var buf bytes.Buffer
				err := format.Node(&buf, prog.Fset, f)
				target.Op = old
				if err != nil {
					return "", false
				}
				rel, err := filepath.Rel(p.Repo, mt.file)
				if err != nil || strings.HasPrefix(rel, "..") {
					return "", false
				}
				dst := filepath.Join(dir, rel)
				os.MkdirAll(filepath.Dir(dst), 0o755)
				if os.WriteFile(dst, buf.Bytes(), 0o644) != nil {
					return "", false
				}
				return fmt.Sprintf("%s %s→%s", old, old, nop), true
			}
		}
	}
	return "", false
}

// seedMutant applies a stored seeded patch to copies of the touched files.
func seedMutant(p *Program, seedDir, dir string) (bool, string) {
	patch := filepath.Join(seedDir, "patch.diff")
	b, err := os.ReadFile(patch)
	if err != nil {
		return false, err.Error()
	}
	var files []string
	for _, ln := range strings.Split(string(b), "\n") {
		if strings.HasPrefix(ln, "+++ b/") {
			files = append(files, strings.TrimPrefix(ln, "+++ b/"))
		}
	}
	for _, f := range files {
		src, err := os.ReadFile(filepath.Join(p.Repo, f))
		if err != nil {
			return false, "touched file missing: " + f
		}
		dst := filepath.Join(dir, f)
		os.MkdirAll(filepath.Dir(dst), 0o755)
		os.WriteFile(dst, src, 0o644)
	}
	cmd := exec.Command("patch", "-p1", "-s", "-f", "-d", dir, "-i", patch)
	if out, err := cmd.CombinedOutput(); err != nil {
		return false, "patch does not apply to today's tree: " + strings.TrimSpace(string(out))
	}
	return true, ""
}

func runThorough(p *Program, r *Report, prop string) {
	type job struct {
		name string
		env  []string
		dir  string
		kind string
	}
	var jobs []job
	var cleanup []string
	defer func() {
		for _, d := range cleanup {
			os.RemoveAll(d)
		}
	}()
	// (a) configurations
	jobs = append(jobs, job{name: "config linux/386", env: []string{"VERIF_GOARCH=386"}, kind: "config"})
	jobs = append(jobs, job{name: "config windows/amd64", env: []string{"VERIF_GOOS=windows"}, kind: "config"})
	// (b1) seeded changes of this property
	seeds, _ := filepath.Glob(filepath.Join(verifDir(), "seeded", prop+"-*"))
	sort.Strings(seeds)
	notApplicable := 0
	for _, s := range seeds {
		dir, _ := os.MkdirTemp("", "btcdlint-mut-")
		cleanup = append(cleanup, dir)
		if ok, why := seedMutant(p, s, dir); !ok {
			notApplicable++
			r.Notes = append(r.Notes, "seed "+filepath.Base(s)+" not applicable today: "+why)
			continue
		}
		jobs = append(jobs, job{name: "seed " + filepath.Base(s), env: []string{"VERIF_OVERLAY_DIR=" + dir}, dir: dir, kind: "mutant"})
	}
	// (b2) operator mutants of reviewed guards, a deterministic sample
	targets := r.mutantGuards
	sort.Slice(targets, func(i, j int) bool { return targets[i].fn+targets[i].key < targets[j].fn+targets[j].key })
	maxMut := 16
	if v := os.Getenv("VERIF_MUTANTS"); v != "" {
		fmt.Sscanf(v, "%d", &maxMut)
	}
	seed := 0
	fmt.Sscanf(os.Getenv("VERIF_SEED"), "%d", &seed)
	step := 1
	if len(targets) > maxMut {
		step = len(targets) / maxMut
	}
	n := 0
	for i := seed % (step + 0*1); i < len(targets) && n < maxMut; i += step {
		mt := targets[i]
		dir, _ := os.MkdirTemp("", "btcdlint-mut-")
		cleanup = append(cleanup, dir)
		desc, ok := operatorMutant(p, mt, dir)
		if !ok {
			continue
		}
		n++
		k := mt.key
		if len(k) > 120 {
			k = k[:120]
		}
		jobs = append(jobs, job{name: fmt.Sprintf("flip %s in %s :: %s", desc, mt.fn, k), env: []string{"VERIF_OVERLAY_DIR=" + dir}, dir: dir, kind: "mutant"})
	}
	// run, bounded parallelism (each sub-process loads the whole program)
	results := make([]subResult, len(jobs))
	sem := make(chan struct{}, 6)
	var wg sync.WaitGroup
	for i, j := range jobs {
		wg.Add(1)
		go func(i int, j job) {
			defer wg.Done()
			sem <- struct{}{}
			results[i] = runSub(prop, j.env, j.name)
			<-sem
		}(i, j)
	}
	wg.Wait()
	killed, applicable := 0, 0
	var survivors []string
	for i, j := range jobs {
		res := results[i]
		switch j.kind {
		case "config":
			if res.exit == 0 {
				r.pass("thorough/config", j.name, "", "all rule instances hold in this build configuration")
			} else {
				r.fail("thorough/config", j.name, "", fmt.Sprintf("exit %d: %s %s", res.exit, strings.Join(res.firstLines, " | "), res.err))
			}
		case "mutant":
			applicable++
			if res.exit == 1 && res.violations > 0 {
				killed++
				r.pass("thorough/selftest", j.name, "", fmt.Sprintf("detected (%d violations): %s", res.violations, strings.Join(res.firstLines, " | ")))
			} else {
				survivors = append(survivors, j.name)
				r.fail("thorough/selftest", j.name, "", fmt.Sprintf("mutant of the current source was NOT detected (exit %d %s): the rule set cannot see this violation", res.exit, res.err))
			}
		}
	}
	if r.extraCoverage == nil {
		r.extraCoverage = map[string]any{}
	}
	r.extraCoverage["mutants_applicable"] = applicable
	r.extraCoverage["mutants_killed"] = killed
	r.extraCoverage["mutants_not_applicable_today"] = notApplicable
	r.extraCoverage["mutant_survivors"] = survivors
	r.extraCoverage["configurations"] = []string{"linux/amd64", "linux/386", "windows/amd64"}
}
