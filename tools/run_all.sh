#!/bin/bash
# run every registered check (quick tier) in parallel, print one line per property
cd /verif
ids=$(python3 -c "import json;print(' '.join(c['property_id'] for c in json.load(open('MANIFEST.json'))['checks']))")
[ -n "$1" ] && ids="$@"
for c in $ids; do ( bin/btcdlint check $c > /tmp/run_all.$c.log 2>&1; echo "$c exit=$? $(grep '^property' /tmp/run_all.$c.log)" ) & 
  while [ $(jobs -r | wc -l) -ge 6 ]; do sleep 0.5; done
done; wait
