#!/bin/sh
# Runs btcd's own test suite with no verification hooks (there are none: the
# checker never modifies /repo). Same shape as the pinned baseline command.
export GOPROXY=off
for m in . address btcec btcutil chaincfg chainhash psbt txscript v2transport wire; do
  (cd /repo/$m && go test -mod=mod -json -vet=off -count=1 -timeout 25m ./...)
done
