#!/usr/bin/env python3
"""Writes /verif/MANIFEST.json from tools/claims.json (one entry per claimed property)."""
import json, os
root = os.path.dirname(os.path.dirname(os.path.abspath(__file__)))
claims = json.load(open(os.path.join(root, 'tools', 'claims.json')))
props = [json.loads(l) for l in open(os.path.join(root, 'properties.jsonl')) if l.strip()]
checks, na = [], []
for p in props:
    pid = p['id']
    c = claims.get(pid)
    if not c or not c.get('claimed'):
        na.append({"property_id": pid, "reason": (c or {}).get('reason', 'no check built for this property in this revision')})
        continue
    checks.append({
        "property_id": pid,
        "quick_cmd": f"bin/btcdlint check {pid} --tier quick",
        "thorough_cmd": f"bin/btcdlint check {pid} --tier thorough",
        "evidence_file": f"evidence/{pid}.json",
        "replay_cmd_template": "bin/btcdlint explain {path}",
        "engine": "btcdlint",
        "level_claimed": {"category": "other", "text": c['text'], "design_ref": f"DESIGN.md §5 {pid}"},
        "level_note": c['note'],
        "technique": c['technique'],
    })
m = {
    "version": 1,
    "setup_cmd": "tools/setup.sh",
    "hooks": {"guard": "verif", "enable": "none: the checker reads /repo's source and never builds or runs it; no hooks exist",
              "baseline_off_cmd": "tools/baseline_off.sh", "source_commits": [], "add_only": True},
    "engines": [{"name": "btcdlint", "path": "lint", "serves_properties": [c['property_id'] for c in checks],
                 "kind_free_text": "repository-specific static analyser on go/packages + go/ssa (x/tools v0.50.0): guard-conformance tables (E1), path/order rules (E2), codec event agreement (E3), ownership and lock discipline (E4), table/registry evaluation (E5), untrusted-length dataflow (E6), treap freshness (E7), error discipline (E8)"}],
    "checks": checks,
    "not_applicable": na,
    "notes": "All claims are level 'other': each check decides named structural clauses of its property (necessary conditions visible in the code on every path), not the behavioural statement itself; see DESIGN.md §5/§8. Fix commits in /repo: see known_findings.txt ('fixed:' lines).",
}
json.dump(m, open(os.path.join(root, 'MANIFEST.json'), 'w'), indent=1)
print("claimed", len(checks), "not_applicable", len(na))
