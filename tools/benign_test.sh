#!/bin/bash
# applies each behaviour-preserving edit script to /repo, checks it still builds, runs the given checks, reverts.
cd /verif
git -C /repo diff --quiet || { echo "/repo dirty"; exit 2; }
for b in tools/benign/${1:-*}.sh; do
  props=$(grep -m1 '^# props:' $b | cut -d: -f2)
  bash $b || { echo "$b: edit failed"; git -C /repo checkout -- .; continue; }
  n=$(git -C /repo diff --stat | tail -1)
  for p in ${props:-C01}; do
    out=$(bin/btcdlint check $p 2>&1); rc=$?
    echo "$(basename $b) [$n] vs $p: exit=$rc"
    echo "$out" | grep -E '^[^ ]+:[0-9]+: |^-: ' | cut -c1-260 | head -5
  done
  git -C /repo checkout -- .
done
