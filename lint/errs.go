package main

import (
	"fmt"
	"os"
	"path/filepath"
	"go/token"
	"go/types"
	"sort"
	"strings"

	"golang.org/x/tools/go/ssa"
)

// E8 — error discipline.
//  dropped:  a call returns an error that no instruction ever reads.
//  checked-then-dropped: a function returns nil in its error slot from inside
//  the `err != nil` branch of a call it just made, without otherwise using err.

var dropOK = []string{ // callees whose error result may be ignored, with the reason
	"(*bytes.Buffer).Write", "(*bytes.Buffer).WriteByte", "(*bytes.Buffer).WriteString", "(*bytes.Buffer).WriteRune", // documented to always return nil
	"(*strings.Builder).Write", "(*strings.Builder).WriteString", "(*strings.Builder).WriteByte", "(*strings.Builder).WriteRune",
	"(hash.Hash).Write", "(*crypto/sha256.digest).Write", "(io.Writer).Write@hash", // hash writers never fail
	"fmt.Fprintf", "fmt.Fprintln", "fmt.Fprint", "fmt.Printf", "fmt.Println", "fmt.Print",
}

func isDropOK(name string) bool {
	for _, d := range dropOK {
		if name == d {
			return true
		}
	}
	return false
}

type errSite struct {
	fn     *ssa.Function
	kind   string
	callee string
	pos    token.Pos
}

func errorIndex(sig *types.Signature) int {
	res := sig.Results()
	for i := res.Len() - 1; i >= 0; i-- {
		if isErrorType(res.At(i).Type()) {
			return i
		}
	}
	return -1
}

func scanErrDiscipline(p *Program, fn *ssa.Function) []errSite {
	var out []errSite
	c := newCanon(p, fn)
	for _, b := range fn.Blocks {
		for _, in := range b.Instrs {
			call, ok := in.(*ssa.Call)
			if !ok {
				continue
			}
			sig := call.Common().Signature()
			ei := errorIndex(sig)
			if ei < 0 {
				continue
			}
			name := c.calleeName(call.Common())
			full := name
			if f := call.Common().StaticCallee(); f != nil {
				full = f.String()
			}
			var errVal ssa.Value
			if sig.Results().Len() == 1 {
				errVal = call
			} else {
				for _, ref := range *call.Referrers() {
					if ex, ok := ref.(*ssa.Extract); ok && ex.Index == ei {
						errVal = ex
					}
				}
			}
			used := false
			if errVal != nil {
				for _, ref := range *errVal.Referrers() {
					if _, dbg := ref.(*ssa.DebugRef); !dbg {
						used = true
					}
				}
			}
			if !used {
				if f := call.Common().StaticCallee(); f != nil && alwaysNilError(f) {
					continue
				}
				if !isDropOK(full) && !isNoiseCallee(full) {
					out = append(out, errSite{fn, "dropped", name, call.Pos()})
				}
				continue
			}
			// checked-then-dropped
			if fn.Signature.Results().Len() == 0 || !isErrorType(fn.Signature.Results().At(fn.Signature.Results().Len()-1).Type()) {
				continue
			}
			for _, ref := range *errVal.Referrers() {
				cmp, ok := ref.(*ssa.BinOp)
				if !ok || cmp.Op != token.NEQ && cmp.Op != token.EQL {
					continue
				}
				other := cmp.Y
				if other == errVal {
					other = cmp.X
				}
				if k, ok := other.(*ssa.Const); !ok || k.Value != nil {
					continue
				}
				for _, r2 := range *cmp.Referrers() {
					iff, ok := r2.(*ssa.If)
					if !ok {
						continue
					}
					idx := 0
					if cmp.Op == token.EQL {
						idx = 1
					}
					tgt := iff.Block().Succs[idx]
					if len(tgt.Preds) != 1 {
						continue
					}
					ret, ok := tgt.Instrs[len(tgt.Instrs)-1].(*ssa.Return)
					if !ok {
						continue
					}
					ev := unspill(ret.Results[len(ret.Results)-1], tgt)
					if k, ok := ev.(*ssa.Const); !ok || k.Value != nil {
						continue
					}
					// err otherwise used in the branch block (logged, wrapped, compared)?
					usedThere := false
					for _, u := range *errVal.Referrers() {
						if u.Block() == tgt {
							usedThere = true
						}
					}
					if !usedThere {
						out = append(out, errSite{fn, "checked-then-dropped", name, ret.Pos()})
					}
				}
			}
		}
	}
	return out
}

// ruleErrDiscipline checks the functions selected by sel; allowed maps
// "kind funcName callee" to the reason it is accepted.
func ruleErrDisciplineOnce(p *Program, r *Report, sel func(fn *ssa.Function) bool, allowed map[string]string) {
	var fns []*ssa.Function
	for fn := range allFuncs(p) {
		if fn.Blocks != nil && sel(fn) {
			fns = append(fns, fn)
		}
	}
	sort.Slice(fns, func(i, j int) bool { return fullFuncName(fns[i]) < fullFuncName(fns[j]) })
	nCalls := 0
	for _, fn := range fns {
		sites := scanErrDiscipline(p, fn)
		seen := map[string]bool{}
		for _, s := range sites {
			key := fmt.Sprintf("%s %s %s", s.kind, short(fullFuncName(fn)), s.callee)
			if seen[key] {
				continue
			}
			seen[key] = true
			if why, ok := allowed[key]; ok {
				errAllowUsed[r.Prop+key] = true
				o := r.add("err/"+s.kind, key, p.pos(s.pos), true, "accepted: "+why)
				_ = o
				continue
			}
			what := "error result is never read"
			if s.kind == "checked-then-dropped" {
				what = "returns nil from the `err != nil` branch of this call without using err: the failure is reported as success"
			}
			r.fail("err/"+s.kind, key, p.pos(s.pos), what)
		}
		for _, b := range fn.Blocks {
			for _, in := range b.Instrs {
				if c, ok := in.(*ssa.Call); ok && errorIndex(c.Common().Signature()) >= 0 {
					nCalls++
				}
			}
		}
	}
	if len(fns) == 0 {
		return
	}
	r.pass("err/scope", fmt.Sprintf("%d functions, %d error-returning calls", len(fns), nCalls), "", "every error result is read; no nil return from an err != nil branch")
	r.Analysed["err_discipline_functions"] += len(fns)
	r.Analysed["err_returning_calls"] += nCalls
}

var alwaysNilCache = map[*ssa.Function]int{}

// alwaysNilError: every return of fn has the constant nil in its error slot.
func alwaysNilError(fn *ssa.Function) bool {
	if v, ok := alwaysNilCache[fn]; ok {
		return v == 1
	}
	alwaysNilCache[fn] = 2
	if fn.Blocks == nil {
		return false
	}
	ei := errorIndex(fn.Signature)
	if ei < 0 {
		return false
	}
	for _, b := range fn.Blocks {
		ret, ok := b.Instrs[len(b.Instrs)-1].(*ssa.Return)
		if !ok || b == fn.Recover {
			continue
		}
		v := unspill(ret.Results[ei], b)
		if k, ok := v.(*ssa.Const); !ok || k.Value != nil {
			return false
		}
	}
	alwaysNilCache[fn] = 1
	return true
}

// loadErrAllow reads rules/errs.allow: "Cxx | kind func callee | reason".
func loadErrAllow(prop string) (map[string]string, error) {
	b, err := os.ReadFile(filepath.Join(verifDir(), "rules", "errs.allow"))
	if err != nil {
		return nil, err
	}
	out := map[string]string{}
	for _, ln := range strings.Split(string(b), "\n") {
		ln = strings.TrimSpace(ln)
		if ln == "" || strings.HasPrefix(ln, "#") {
			continue
		}
		parts := strings.SplitN(ln, " | ", 3)
		if len(parts) != 3 {
			return nil, fmt.Errorf("errs.allow: cannot parse %q", ln)
		}
		if parts[0] == prop {
			out[strings.TrimSpace(parts[1])] = strings.TrimSpace(parts[2])
		}
	}
	return out, nil
}

var errAllowUsed = map[string]bool{}
