package main

import (
	"fmt"
	"go/token"
	"go/types"
	"sort"
	"strings"

	"golang.org/x/tools/go/ssa"
)

// Nil agreement (contradiction rule): for a pointer field that some readers test for nil before
// use, every reader must. A value loaded from the field may only be compared with nil, or be used
// where a dominating branch has established `field != nil`; the listed accessors (which establish
// the value) are excepted. "One path checks the pointer, another dereferences it unconditionally —
// one of them is wrong."
func ruleNilTested(p *Program, r *Report, fieldSpec string, except map[string]string) {
	fv := p.fieldOf(fieldSpec)
	if fv == nil {
		r.fail("anchor", fieldSpec, "", "field cannot be resolved")
		return
	}
	pp := p.progFor(fv.Pkg().Path())
	sf := short(fieldSpec)
	type site struct {
		fn   *ssa.Function
		load *ssa.UnOp
		fa   *ssa.FieldAddr
	}
	var sites []site
	for fn := range allFuncs(pp) {
		if fn.Blocks == nil {
			continue
		}
		for _, b := range fn.Blocks {
			for _, in := range b.Instrs {
				ld, ok := in.(*ssa.UnOp)
				if !ok || ld.Op != token.MUL {
					continue
				}
				if fa, ok := ld.X.(*ssa.FieldAddr); ok && fieldVarOf(fa) == fv {
					sites = append(sites, site{fn, ld, fa})
				}
			}
		}
	}
	sort.Slice(sites, func(i, j int) bool { return sites[i].load.Pos() < sites[j].load.Pos() })
	tested, used := 0, 0
	facts := map[*ssa.Function]*FuncFacts{}
	for _, s := range sites {
		name := funcName(s.fn)
		if why, ok := except[name]; ok {
			o := r.add("nil-tested", sf+" in "+name, pp.pos(s.load.Pos()), true, "listed exception: "+why)
			o.Trivial = true
			continue
		}
		f := facts[s.fn]
		if f == nil {
			f = pp.facts(s.fn, defaultRejectMode(s.fn))
			facts[s.fn] = f
		}
		term := strings.TrimPrefix(f.c.term(s.fa), "&")
		want1, want2 := term+" != nil", "nil != "+term
		rej, _ := f.rejEdges()
		bad := ""
		onlyCompared := true
		for _, ref := range *s.load.Referrers() {
			if _, ok := ref.(*ssa.DebugRef); ok {
				continue
			}
			if bo, ok := ref.(*ssa.BinOp); ok && (bo.Op == token.EQL || bo.Op == token.NEQ) && (isNilConst(bo.X) || isNilConst(bo.Y)) {
				continue
			}
			onlyCompared = false
			// a phi uses the value on the edge from the predecessor that supplies it
			blocks := []*ssa.BasicBlock{ref.Block()}
			if ph, ok := ref.(*ssa.Phi); ok {
				blocks = nil
				for i, e := range ph.Edges {
					if e == ssa.Value(s.load) {
						blocks = append(blocks, ph.Block().Preds[i])
					}
				}
			}
			guarded := len(blocks) > 0
			for _, blk := range blocks {
				ok := blk == s.load.Block() && false
				for _, ce := range f.context(blk, rej) {
					if ce.atom == want1 || ce.atom == want2 {
						ok = true
					}
				}
				if !ok {
					guarded = false
				}
			}
			if !guarded && bad == "" {
				bad = fmt.Sprintf("%s is used at %s without a dominating test `%s`; other readers of the field test it for nil", term, pp.pos(ref.Pos()), want1)
			}
		}
		cons := fmt.Sprintf("%s in %s @%s", sf, name, relLine(pp, s.load.Pos()))
		if onlyCompared {
			tested++
			r.pass("nil-tested", cons, pp.pos(s.load.Pos()), "compared with nil")
			continue
		}
		used++
		if bad != "" {
			r.fail("nil-tested", sf+" in "+name, pp.pos(s.load.Pos()), bad)
		} else {
			r.pass("nil-tested", cons, pp.pos(s.load.Pos()), "used under "+want1)
		}
	}
	if tested == 0 {
		r.fail("nil-tested", sf, "", "no reader tests the field for nil (the rule has no instance: anchor lost)")
	}
	_ = types.Typ
}

// relLine: position without the line number would merge sites; keep file only plus ordinal-free line.
func relLine(p *Program, pos token.Pos) string {
	s := p.pos(pos)
	if i := strings.LastIndex(s, "/"); i >= 0 {
		s = s[i+1:]
	}
	return s
}

func init() {
	extra("C07", func(p *Program, r *Report) {
		ruleNilTested(p, r, btcd+"/txscript/v2.Engine.hashCache", map[string]string{
			"(*txscript/v2.Engine).sigHashMidstates": "the accessor that computes the midstates when the engine was created without them",
		})
	})
}

// nilScan (discovery only): every pointer/func/interface field of a btcd struct that at least one
// reader compares with nil and at least one other reader uses without a dominating test.
func nilScan(p *Program) {
	type stat struct {
		tested  int
		unsafe_ []string
	}
	stats := map[*types.Var]*stat{}
	for _, pp := range []*Program{p, p.V2} {
		if pp == nil {
			continue
		}
		facts := map[*ssa.Function]*FuncFacts{}
		for fn := range allFuncs(pp) {
			if fn.Blocks == nil || fn.Pkg == nil || !strings.HasPrefix(fn.Pkg.Pkg.Path(), btcdPrefix) {
				continue
			}
			for _, b := range fn.Blocks {
				for _, in := range b.Instrs {
					ld, ok := in.(*ssa.UnOp)
					if !ok || ld.Op != token.MUL {
						continue
					}
					fa, ok := ld.X.(*ssa.FieldAddr)
					if !ok {
						continue
					}
					fv := fieldVarOf(fa)
					if fv == nil || fv.Pkg() == nil || !strings.HasPrefix(fv.Pkg().Path(), btcdPrefix) {
						continue
					}
					switch fv.Type().Underlying().(type) {
					case *types.Pointer, *types.Signature:
					default:
						continue
					}
					st := stats[fv]
					if st == nil {
						st = &stat{}
						stats[fv] = st
					}
					f := facts[fn]
					if f == nil {
						f = pp.facts(fn, defaultRejectMode(fn))
						facts[fn] = f
					}
					term := strings.TrimPrefix(f.c.term(fa), "&")
					want1, want2 := term+" != nil", "nil != "+term
					rej, _ := f.rejEdges()
					only := true
					bad := false
					for _, ref := range *ld.Referrers() {
						if _, ok := ref.(*ssa.DebugRef); ok {
							continue
						}
						if bo, ok := ref.(*ssa.BinOp); ok && (bo.Op == token.EQL || bo.Op == token.NEQ) && (isNilConst(bo.X) || isNilConst(bo.Y)) {
							continue
						}
						only = false
						// only real dereferences / calls count as unsafe uses
						deref := false
						switch r := ref.(type) {
						case *ssa.FieldAddr, *ssa.Field, *ssa.IndexAddr:
							deref = true
						case *ssa.UnOp:
							deref = r.Op == token.MUL
						case ssa.CallInstruction:
							deref = r.Common().Value == ssa.Value(ld) // calling a func-typed field
						}
						if !deref {
							continue
						}
						g := false
						for _, d := range fn.Blocks {
							iff := f.ifOf(d)
							if iff == nil {
								continue
							}
							for k := 0; k < 2; k++ {
								if d != ref.Block() && edgeDominates(d, k, ref.Block()) {
									if a := f.c.condAtom(iff.Cond, k == 0); a == want1 || a == want2 {
										g = true
									}
								}
							}
						}
						_ = rej
						if !g {
							bad = true
						}
					}
					if only {
						st.tested++
					} else if bad {
						st.unsafe_ = append(st.unsafe_, funcName(fn)+" "+pp.pos(ld.Pos()))
					}
				}
			}
		}
	}
	var lines []string
	for fv, st := range stats {
		if st.tested > 0 && len(st.unsafe_) > 0 {
			sort.Strings(st.unsafe_)
			lines = append(lines, fmt.Sprintf("%s.%s tested=%d unsafe=%d e.g. %s", short(fv.Pkg().Path()), fv.Name(), st.tested, len(st.unsafe_), st.unsafe_[0]))
		}
	}
	sort.Strings(lines)
	for _, l := range lines {
		fmt.Println(l)
	}
}
