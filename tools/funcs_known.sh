#!/bin/bash
# Regenerates rules/funcs.known from the current tree (all three build configurations).
cd /verif
B=${BTCDLINT:-bin/btcdlint}
$B funcs | grep -v '^ERR\|^note:' > /tmp/fk.L.$$ || exit 1
VERIF_GOARCH=386 $B funcs | grep -v '^ERR\|^note:' > /tmp/fk.3.$$ || exit 1
VERIF_GOOS=windows $B funcs | grep -v '^ERR\|^note:' > /tmp/fk.W.$$ || exit 1
python3 - /tmp/fk.L.$$ /tmp/fk.3.$$ /tmp/fk.W.$$ > rules/funcs.known.new <<'PY'
import sys
flags={}; sig={}
for f,fl in zip(sys.argv[1:4],"L3W"):
    for line in open(f):
        line=line.rstrip("\n")
        if not line: continue
        i,_,s=line.partition("\t")
        flags[i]=flags.get(i,"")+fl; sig[i]=s
for i in sorted(flags):
    print(f"{i}\t{flags[i]}\t{sig[i]}")
PY
rm -f /tmp/fk.?.$$
$B fields | grep -v '^ERR\|^note:' > rules/fields.known.new || exit 1
if [ $(wc -l < rules/fields.known.new) -gt 300 ]; then mv rules/fields.known.new rules/fields.known; else echo "fields.known: listing failed"; exit 1; fi
if [ $(wc -l < rules/funcs.known.new) -gt 3000 ]; then mv rules/funcs.known.new rules/funcs.known; else echo "funcs.known: listing failed"; exit 1; fi
