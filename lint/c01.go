package main

func init() {
	register(&propDef{
		id: "C01",
		explanation: "Decides, on the SSA form of /repo's working tree, that every function that can refuse a block " +
			"(transaction/header/block sanity, contextual checks, BIP30, input checks, connect-time checks, witness commitment, " +
			"sig-op cost, finality, accept/process pipeline, reorganisation validity) has exactly the reviewed set of rejecting guards " +
			"(conjunction of canonical branch conditions => rejection code), that no accepting return is reachable around a guard " +
			"except through the guard's own context conditions, and that the set of accepting exits is exactly the reviewed one. " +
			"A changed operator, boundary constant, operand, error code, a dropped or bypassed check, or an added rejection is reported " +
			"at the guard. Not decided: that operands (sizes, merkle roots, median times, difficulty) are computed correctly.",
		run: func(p *Program, r *Report) {
			checkGuardsFile(p, r, "C01.guards")
			checkGuardsFile(p, r, "C01.order")
			r.need("order", 8)
			r.need("mustpass", 8)
			r.need("guard", 250)
		},
	})
}
