package main

import (
	"fmt"
	"go/types"
	"regexp"
	"sort"
	"strings"

	"golang.org/x/tools/go/ssa"
)

// E3 — codec sibling agreement. For an encoder/decoder pair with the same receiver type, the
// order in which the receiver's fields are written to the stream must equal the order in which
// they are read back, and each field must be under the same protocol-version / encoding
// conditions on both sides. Only fields that both sides touch directly are compared (a decoder
// that fills a slice through a local is compared on the fields it does name).

// gateAtom: a condition on the protocol version or the message encoding parameter itself.
var gateAtom = regexp.MustCompile(`^!?‹(pver|enc|encoding)› (>=|<=|==|!=|<) \S+$`)

var fieldTok = regexp.MustCompile(`‹\w+›\.([A-Za-z_]\w*)`)

type fieldUse struct {
	field string
	conds []string
	pos   string
}

// fieldSequence lists, in source order, the receiver fields used by the stream-touching events.
func fieldSequence(p *Program, fn *ssa.Function) []fieldUse {
	f := p.progFor(fn.Pkg.Pkg.Path()).facts(fn, defaultRejectMode(fn))
	recv := ""
	if len(fn.Params) > 0 {
		recv = fn.Params[0].Name()
	}
	evs := append([]*Event{}, f.Events()...)
	sort.SliceStable(evs, func(i, j int) bool { return evs[i].Pos < evs[j].Pos })
	var out []fieldUse
	seen := map[string]bool{}
	for _, e := range evs {
		if e.Pure && e.Kind == "call" {
			continue
		}
		text := e.Full()
		for _, m := range fieldTok.FindAllStringSubmatch(text, -1) {
			if !strings.Contains(m[0], "‹"+recv+"›.") {
				continue
			}
			fld := m[1]
			if seen[fld] {
				continue
			}
			seen[fld] = true
			var conds []string
			for _, a := range f.eventContext(e) {
				if gateAtom.MatchString(a) {
					conds = append(conds, a)
				}
			}
			sort.Strings(conds)
			out = append(out, fieldUse{fld, conds, p.pos(e.Pos)})
		}
	}
	return out
}

// ruleCodecPairs compares encoder/decoder pairs of every type in the package.
func ruleCodecPairs(p *Program, r *Report, pkgPath string, pairs [][2]string) {
	pk := p.Pkg(pkgPath)
	if pk == nil {
		r.fail("anchor", pkgPath, "", "package not loaded")
		return
	}
	names := pk.Types.Scope().Names()
	n := 0
	for _, tn := range names {
		obj, ok := pk.Types.Scope().Lookup(tn).(*types.TypeName)
		if !ok {
			continue
		}
		if _, isStruct := obj.Type().Underlying().(*types.Struct); !isStruct {
			continue
		}
		for _, pr := range pairs {
			enc := p.Func(pkgPath + ".(*" + tn + ")." + pr[0])
			dec := p.Func(pkgPath + ".(*" + tn + ")." + pr[1])
			if enc == nil || dec == nil || enc.Blocks == nil || dec.Blocks == nil {
				continue
			}
			es, ds := fieldSequence(p, enc), fieldSequence(p, dec)
			inE, inD := map[string]fieldUse{}, map[string]fieldUse{}
			for _, u := range es {
				inE[u.field] = u
			}
			for _, u := range ds {
				inD[u.field] = u
			}
			var ce, cd []string
			for _, u := range es {
				if _, ok := inD[u.field]; ok {
					ce = append(ce, u.field)
				}
			}
			for _, u := range ds {
				if _, ok := inE[u.field]; ok {
					cd = append(cd, u.field)
				}
			}
			cons := fmt.Sprintf("%s.%s %s≍%s", short(pkgPath), tn, pr[0], pr[1])
			if len(ce) == 0 {
				continue
			}
			n++
			if strings.Join(ce, ",") != strings.Join(cd, ",") {
				r.fail("codec-order", cons, p.pos(enc.Pos()), fmt.Sprintf("fields are written in the order [%s] but read in the order [%s]", strings.Join(ce, " "), strings.Join(cd, " ")))
				continue
			}
			bad := false
			for _, fld := range ce {
				a, b := strings.Join(inE[fld].conds, " && "), strings.Join(inD[fld].conds, " && ")
				if a != b {
					bad = true
					r.fail("codec-order", cons+" :: field "+fld, p.pos(enc.Pos()), fmt.Sprintf("written under [%s] (%s) but read under [%s] (%s): a byte string accepted by the reader is not reproduced by the writer at that version", a, inE[fld].pos, b, inD[fld].pos))
				}
			}
			if !bad {
				r.pass("codec-order", cons, p.pos(enc.Pos()), fmt.Sprintf("%d common fields in the same order under the same version/encoding conditions: %s", len(ce), strings.Join(ce, " ")))
			}
		}
	}
	if n == 0 {
		r.fail("codec-order", short(pkgPath), "", "no encoder/decoder pair found (anchor lost)")
	}
}

// fieldOrder lists the fields of struct type S in the order in which fn first reads them
// (reads=true: encoder side) or first stores them (reads=false: decoder side).
func fieldOrder(fn *ssa.Function, structName string, reads bool) []string {
	type hit struct {
		name string
		pos  int
	}
	var hits []hit
	isS := func(t types.Type) bool {
		if pt, ok := t.Underlying().(*types.Pointer); ok {
			t = pt.Elem()
		}
		n, ok := t.(*types.Named)
		return ok && n.Obj().Name() == structName
	}
	var walk func(f *ssa.Function)
	walk = func(f *ssa.Function) {
		for _, b := range f.Blocks {
			for _, in := range b.Instrs {
				switch x := in.(type) {
				case *ssa.FieldAddr:
					if !isS(x.X.Type()) {
						continue
					}
					name := fieldName(x.X.Type(), x.Field)
					stored, loaded := false, false
					for _, ref := range *x.Referrers() {
						switch r := ref.(type) {
						case *ssa.Store:
							if r.Addr == ssa.Value(x) {
								stored = true
							} else {
								loaded = true
							}
						case *ssa.DebugRef:
						default:
							loaded = true
						}
					}
					if reads && loaded || !reads && stored {
						hits = append(hits, hit{name, int(x.Pos())})
					}
				case *ssa.Field:
					if reads && isS(x.X.Type()) {
						hits = append(hits, hit{fieldName(x.X.Type(), x.Field), int(x.Pos())})
					}
				}
			}
		}
		for _, a := range f.AnonFuncs {
			walk(a)
		}
	}
	walk(fn)
	sort.SliceStable(hits, func(i, j int) bool { return hits[i].pos < hits[j].pos })
	var out []string
	seen := map[string]bool{}
	for _, h := range hits {
		if !seen[h.name] {
			seen[h.name] = true
			out = append(out, h.name)
		}
	}
	return out
}

type codecPair struct {
	enc, dec, structName string
}

// ruleFieldOrderPairs: serializer and deserializer of a record touch the record's fields in the
// same order (offset-based codecs: the statement order is the byte layout).
func ruleFieldOrderPairs(p *Program, r *Report, pairs []codecPair) {
	for _, pr := range pairs {
		enc, dec := p.Func(pr.enc), p.Func(pr.dec)
		cons := fmt.Sprintf("%s ≍ %s over %s", short(pr.enc), short(pr.dec), pr.structName)
		if enc == nil || dec == nil {
			r.fail("anchor", cons, "", "codec function cannot be resolved")
			continue
		}
		es, ds := fieldOrder(enc, pr.structName, true), fieldOrder(dec, pr.structName, false)
		inE, inD := map[string]bool{}, map[string]bool{}
		for _, f := range es {
			inE[f] = true
		}
		for _, f := range ds {
			inD[f] = true
		}
		var ce, cd []string
		for _, f := range es {
			if inD[f] {
				ce = append(ce, f)
			}
		}
		for _, f := range ds {
			if inE[f] {
				cd = append(cd, f)
			}
		}
		if len(ce) < 2 {
			r.fail("field-order", cons, p.pos(enc.Pos()), fmt.Sprintf("fewer than two common fields found (encoder reads [%s], decoder stores [%s]): anchor lost", strings.Join(es, " "), strings.Join(ds, " ")))
			continue
		}
		if strings.Join(ce, ",") == strings.Join(cd, ",") {
			r.pass("field-order", cons, p.pos(enc.Pos()), "both sides use the order: "+strings.Join(ce, " "))
		} else {
			r.fail("field-order", cons, p.pos(dec.Pos()), fmt.Sprintf("serializer writes the fields in the order [%s], deserializer reads them in the order [%s]", strings.Join(ce, " "), strings.Join(cd, " ")))
		}
	}
}
