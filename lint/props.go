package main

import (
	"os"
	"path/filepath"
)

type propDef struct {
	id          string
	explanation string
	assumptions []string
	run         func(p *Program, r *Report)
}

var props = map[string]*propDef{}

func register(d *propDef) { props[d.id] = d }

var commonAssumptions = []string{
	"go/types, go/ssa and the VTA/CHA call graph of golang.org/x/tools v0.50.0 model the program faithfully",
	"dependencies outside github.com/btcsuite/btcd (decred secp256k1, goleveldb, x/crypto, the Go standard library) are a trusted base and are not analysed",
	"the frozen rule tables under /verif/rules were reviewed against the protocol documents they cite; the check decides that the code still has exactly these guards/edges/tables, not that operands are computed correctly",
	"default build configuration linux/amd64 without test files (thorough adds 386/windows for the AST-level rules)",
}

func guardsFileExists(name string) bool {
	_, err := os.Stat(filepath.Join(verifDir(), "rules", name))
	return err == nil
}

// extras: additional rule sets per property, run after the property's main function.
var extras = map[string][]func(p *Program, r *Report){}

func extra(id string, f func(p *Program, r *Report)) { extras[id] = append(extras[id], f) }
