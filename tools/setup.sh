#!/bin/sh
# Builds the checker from files on disk only (offline).
set -e
cd "$(dirname "$0")/../lint"
export PATH=/opt/veriftools/go1.26.8/bin:$PATH
export GOTOOLCHAIN=local GOPROXY=off GOFLAGS=-mod=mod GOSUMDB=off CGO_ENABLED=0
unset GOWORK
mkdir -p ../bin ../evidence ../reports
go build -o ../bin/btcdlint .
echo "built $(cd ..; pwd)/bin/btcdlint"
