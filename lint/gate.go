package main

import (
	"fmt"
	"go/constant"
	"sort"
	"strings"

	"golang.org/x/tools/go/ssa"
)

// Gate rule: "the flag that gates action G becomes true only where step S has happened".
//
// In function fn, the call of G is governed by a boolean (the condition of the innermost branch
// that dominates the call). Every point where that boolean becomes true — a constant true flowing
// into its phi web — must lie in a block dominated by a call of S in the same loop iteration.
// Instance (C12): the coinbase gets a witness commitment (AddWitnessCommitment) iff a witness
// transaction was *included*; the flag must not be raised for a candidate that is skipped later,
// otherwise the block carries weight the limit check never saw (F15).
func ruleGateSetAfter(p *Program, r *Report, fnName, gated, after string) {
	fn := p.Func(fnName)
	cons := short(fnName) + " :: gate of " + gated + " set only after " + after
	if fn == nil || fn.Blocks == nil {
		r.fail("anchor", fnName, "", "function cannot be resolved")
		return
	}
	pp := p.progFor(fn.Pkg.Pkg.Path())
	f := pp.facts(fn, defaultRejectMode(fn))
	callsOf := func(sub string) []*ssa.Call {
		var out []*ssa.Call
		for _, b := range fn.Blocks {
			for _, in := range b.Instrs {
				if c, ok := in.(*ssa.Call); ok && strings.Contains(f.c.calleeName(c.Common()), sub) {
					out = append(out, c)
				}
			}
		}
		return out
	}
	gs, as := callsOf(gated), callsOf(after)
	if len(gs) != 1 || len(as) == 0 {
		r.fail("gate", cons, pp.pos(fn.Pos()), fmt.Sprintf("anchor calls not found (%d gated, %d step)", len(gs), len(as)))
		return
	}
	// the governing boolean: condition of the closest dominating branch edge that is a plain value
	var gate ssa.Value
	gb := gs[0].Block()
	for d := gb.Idom(); d != nil && gate == nil; d = d.Idom() {
		iff := f.ifOf(d)
		if iff == nil {
			continue
		}
		for k := 0; k < 2; k++ {
			if edgeDominates(d, k, gb) {
				switch iff.Cond.(type) {
				case *ssa.Phi, *ssa.UnOp:
					gate = iff.Cond
				}
			}
		}
	}
	if gate == nil {
		r.fail("gate", cons, pp.pos(gs[0].Pos()), "the gated call is not governed by a boolean flag (anchor lost)")
		return
	}
	type src struct {
		blk *ssa.BasicBlock
	}
	var sources []src
	unknown := ""
	seen := map[ssa.Value]bool{}
	var walk func(v ssa.Value)
	walk = func(v ssa.Value) {
		if seen[v] {
			return
		}
		seen[v] = true
		switch x := v.(type) {
		case *ssa.Phi:
			for i, e := range x.Edges {
				if c, ok := e.(*ssa.Const); ok && c.Value != nil && c.Value.Kind() == constant.Bool {
					if constant.BoolVal(c.Value) {
						sources = append(sources, src{x.Block().Preds[i]})
					}
					continue
				}
				walk(e)
			}
		case *ssa.Const:
		default:
			unknown = f.c.term(v)
		}
	}
	walk(gate)
	if unknown != "" {
		r.fail("gate", cons, pp.pos(gs[0].Pos()), "the flag also takes a computed value ("+unknown+"): not decidable by this rule")
		return
	}
	if len(sources) == 0 {
		r.fail("gate", cons, pp.pos(gs[0].Pos()), "the flag never becomes true (anchor lost)")
		return
	}
	sort.Slice(sources, func(i, j int) bool { return sources[i].blk.Index < sources[j].blk.Index })
	for _, s := range sources {
		ok := false
		for _, a := range as {
			ab := a.Block()
			if (ab == s.blk || ab.Dominates(s.blk)) && f.loopOf(ab) == f.loopOf(s.blk) {
				ok = true
			}
		}
		if !ok {
			r.fail("gate", cons, pp.pos(f.blockPos(s.blk)), fmt.Sprintf("the flag is raised at %s, which is not preceded by %s in the same iteration: a candidate that is skipped later still raises it", pp.pos(f.blockPos(s.blk)), after))
			return
		}
	}
	r.pass("gate", cons, pp.pos(gs[0].Pos()), fmt.Sprintf("%d point(s) raise the flag, each after the step", len(sources)))
}

func init() {
	extra("C12", func(p *Program, r *Report) {
		ruleGateSetAfter(p, r, btcd+"/mining.(*BlkTmplGenerator).NewBlockTemplate", "mining.AddWitnessCommitment", "mining.spendTransaction")
	})
}
