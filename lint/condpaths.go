package main

import (
	"go/constant"
	"go/token"
	"go/types"
	"sort"
	"strings"

	"golang.org/x/tools/go/ssa"
)

// A branch on a boolean that was computed earlier — `ok := a && b; if !ok {…}`, or the result of an
// unreviewed predicate helper — is the same decision as branching on the expression directly. go/ssa
// lowers `if a && b` to a chain of branches but `ok := a && b` to a phi; condPaths unfolds such a
// value into the conjunctions under which it has the wanted truth value, which are exactly the
// conjunction sets the chain of branches yields.
//
// guard=true mimics what the guard computation does for a chain of rejecting branches: an edge
// whose other side already yields the wanted value ("the earlier alternative did not fire") is not
// part of the later alternative's set.

const maxCondPaths = 8
const maxPhiEdges = 8

type yieldTarget struct {
	ph   *ssa.Phi
	want bool
}

func (f *FuncFacts) condPaths(cond ssa.Value, want bool, guard bool, depth int) ([][]string, bool) {
	return f.condPathsY(cond, want, guard, depth, nil)
}

func (f *FuncFacts) condPathsY(cond ssa.Value, want bool, guard bool, depth int, outer []yieldTarget) ([][]string, bool) {
	if depth > 4 {
		return nil, false
	}
	switch v := cond.(type) {
	case *ssa.UnOp:
		if v.Op == token.NOT {
			return f.condPathsY(v.X, !want, guard, depth, outer)
		}
	case *ssa.Const:
		if v.Value != nil && v.Value.Kind() == constant.Bool {
			if constant.BoolVal(v.Value) == want {
				return [][]string{{}}, true
			}
			return nil, true
		}
	case *ssa.Call:
		hf := f.c.inlined(v.Common())
		if hf == nil || hf.mode != rejNone || v.Common().Signature().Results().Len() != 1 {
			break
		}
		var out [][]string
		for _, ri := range hf.rets {
			if ri.ins == nil || len(ri.ins.Results) != 1 {
				return nil, false
			}
			rv := unspill(ri.ins.Results[0], ri.blk)
			sub, ok := hf.condPathsY(rv, want, guard, depth+1, nil)
			if !ok {
				return nil, false
			}
			base := hf.leafContext(ri.blk, []yieldTarget{{nil, want}}, guard)
			for _, p := range sub {
				out = append(out, append(append([]string{}, base...), p...))
			}
		}
		if len(out) > maxCondPaths {
			return nil, false
		}
		return out, true
	case *ssa.Phi:
		if v.Parent() != f.fn || len(v.Edges) < 2 || len(v.Edges) > maxPhiEdges {
			break
		}
		for i := range v.Edges {
			if v.Block().Dominates(v.Block().Preds[i]) {
				return nil, false // loop-carried
			}
		}
		var out [][]string
		for i, e := range v.Edges {
			pred := v.Block().Preds[i]
			targets := append(append([]yieldTarget{}, outer...), yieldTarget{v, want})
			sub, ok := f.condPathsY(e, want, guard, depth+1, targets)
			if !ok {
				return nil, false
			}
			if len(sub) == 0 {
				continue
			}
			base := f.leafContext(pred, targets, guard)
			if iff := f.ifOf(pred); iff != nil && pred.Succs[0] != pred.Succs[1] {
				for k, sc := range pred.Succs {
					if sc == v.Block() {
						base = append(base, f.c.condAtom(iff.Cond, k == 0))
					}
				}
			}
			for _, p := range sub {
				out = append(out, append(append([]string{}, base...), p...))
			}
		}
		if len(out) > maxCondPaths {
			return nil, false
		}
		return out, true
	}
	return [][]string{{f.c.condAtom(cond, want)}}, true
}

// yields: taking edge (d,k) produces the wanted truth value at once — the phi gets the constant
// `want` from d, or the edge leads to a return of the constant `want`.
func (f *FuncFacts) yields(d *ssa.BasicBlock, k int, ph *ssa.Phi, want bool) bool {
	t := d.Succs[k]
	if ph != nil && t == ph.Block() {
		for i, p := range t.Preds {
			if p == d {
				if c, ok := ph.Edges[i].(*ssa.Const); ok && c.Value != nil && c.Value.Kind() == constant.Bool {
					return constant.BoolVal(c.Value) == want
				}
			}
		}
		return false
	}
	if ph == nil {
		if ri := f.retOf[t]; ri != nil && ri.ins != nil && len(ri.ins.Results) == 1 && len(t.Preds) == 1 {
			if c, ok := unspill(ri.ins.Results[0], t).(*ssa.Const); ok && c.Value != nil && c.Value.Kind() == constant.Bool {
				return constant.BoolVal(c.Value) == want
			}
		}
	}
	return false
}

// leafContext: the branch atoms needed to reach block b (a predecessor of the phi, or a returning
// block of a predicate helper).
func (f *FuncFacts) leafContext(b *ssa.BasicBlock, targets []yieldTarget, guard bool) []string {
	rejEdge, _ := f.rejEdges()
	// a boolean computed in place: only the branches of its own evaluation count, not the
	// conditions under which the whole expression is reached (those belong to the user's context)
	outer := map[[2]int]bool{}
	for _, t := range targets {
		if t.ph != nil {
			if id := t.ph.Block().Idom(); id != nil {
				for _, c := range f.context(id, rejEdge) {
					outer[[2]int{c.blk.Index, c.succ}] = true
				}
			}
			break // the outermost phi of the expression
		}
	}
	var atoms []string
	for _, c := range f.context(b, rejEdge) {
		if outer[[2]int{c.blk.Index, c.succ}] {
			continue
		}
		drop := false
		if guard {
			for _, t := range targets {
				if f.yields(c.blk, 1-c.succ, t.ph, t.want) {
					drop = true
				}
			}
		}
		if !drop {
			atoms = append(atoms, c.atom)
		}
	}
	return atoms
}

func pathKey(p []string) string {
	q := simplifyAtoms(append([]string{}, p...))
	sort.Strings(q)
	return strings.Join(q, " && ")
}

func (f *FuncFacts) isInlinedCall(v ssa.Value) bool {
	for {
		u, ok := v.(*ssa.UnOp)
		if !ok || u.Op != token.NOT {
			break
		}
		v = u.X
	}
	call, ok := v.(*ssa.Call)
	return ok && f.c.inlined(call.Common()) != nil
}

// boolReturn: in a predicate-style function `return <bool expression>` is the same decision as
// `if !<expression> { return false }; return true`. The conjunctions under which the expression has
// the failing value are returned; each becomes a rejection of the function.
func (f *FuncFacts) boolReturn(ri *retInfo) ([][]string, bool) {
	if ri.ins == nil || ri.kind != retMaybe || (f.mode != rejFalse && f.mode != rejTrue) || len(ri.ins.Results) == 0 {
		return nil, false
	}
	v := unspill(ri.ins.Results[len(ri.ins.Results)-1], ri.blk)
	if _, isConst := v.(*ssa.Const); isConst {
		return nil, false
	}
	if b, ok := v.Type().Underlying().(*types.Basic); !ok || b.Kind() != types.Bool {
		return nil, false
	}
	failing := f.mode == rejTrue
	fail, ok := f.condPaths(v, failing, true, 0)
	if !ok || len(fail) == 0 {
		return nil, false
	}
	if acc, ok := f.condPaths(v, !failing, true, 0); !ok || len(acc) == 0 {
		return nil, false
	}
	return fail, true
}

// boolTerm renders a boolean phi (`a && b`, `a || (b && c)` used as a value) or the result of an
// unreviewed predicate helper as the disjunction of the branch conjunctions under which it is true.
func (c *Canon) boolTerm(v ssa.Value) (string, bool) {
	if c.owner == nil {
		return "", false
	}
	if b, ok := v.Type().Underlying().(*types.Basic); !ok || b.Kind() != types.Bool {
		return "", false
	}
	switch x := v.(type) {
	case *ssa.Phi:
		// only what condPaths really unfolds; anything else would be rendered through itself
		if x.Parent() != c.owner.fn || len(x.Edges) < 2 || len(x.Edges) > maxPhiEdges {
			return "", false
		}
		for i := range x.Edges {
			if x.Block().Dominates(x.Block().Preds[i]) {
				return "", false
			}
		}
	case *ssa.Call:
		hf := c.inlined(x.Common())
		if hf == nil || hf.mode != rejNone || x.Common().Signature().Results().Len() != 1 {
			return "", false
		}
	default:
		return "", false
	}
	paths, ok := c.owner.condPaths(v, true, false, 0)
	if !ok {
		return "", false
	}
	if len(paths) == 0 {
		return "false", true
	}
	var alts [][]string
	for _, p := range paths {
		q := simplifyAtoms(append([]string{}, p...))
		if len(q) == 0 {
			return "true", true
		}
		alts = append(alts, q)
	}
	return renderDNF(simplifyDNF(alts)), true
}

// simplifyDNF normalises a disjunction of conjunctions: duplicates and absorbed alternatives are
// dropped (X || X&&Y = X) and a literal whose negation guards a weaker alternative is dropped
// (x&&S || !x&&S&&T = x&&S || S&&T), so that the paths of `a || b` as a value ({a}, {!a, b}), the
// alternatives of the same chain written as branches ({a}, {b}), and `!(!a && !b)` are one form.
func simplifyDNF(alts [][]string) [][]string {
	has := func(set []string, a string) bool {
		for _, x := range set {
			if x == a {
				return true
			}
		}
		return false
	}
	subsetExcept := func(x []string, skipX string, y []string, skipY string) bool {
		for _, a := range x {
			if a == skipX {
				continue
			}
			if a == skipY || !has(y, a) {
				return false
			}
		}
		return true
	}
	for changed := true; changed; {
		changed = false
	outer:
		for j := range alts {
			for _, lit := range alts[j] {
				neg, ok := negAtomOf(lit)
				if !ok {
					continue
				}
				for i := range alts {
					if i == j || !has(alts[i], neg) {
						continue
					}
					if subsetExcept(alts[i], neg, alts[j], lit) {
						var ny []string
						for _, a := range alts[j] {
							if a != lit {
								ny = append(ny, a)
							}
						}
						alts[j] = ny
						changed = true
						continue outer
					}
				}
			}
		}
	}
	// absorption and duplicates
	var out [][]string
	for j := range alts {
		drop := false
		for i := range alts {
			if i == j {
				continue
			}
			if subsetExcept(alts[i], "", alts[j], "") && (len(alts[i]) < len(alts[j]) || i < j) {
				drop = true
				break
			}
		}
		if !drop {
			out = append(out, alts[j])
		}
	}
	return out
}

func renderDNF(alts [][]string) string {
	if len(alts) == 0 {
		return "false"
	}
	single := true
	var ks []string
	for _, a := range alts {
		if len(a) == 0 {
			return "true"
		}
		if len(a) != 1 {
			single = false
		}
		q := append([]string{}, a...)
		sort.Strings(q)
		ks = append(ks, strings.Join(q, " && "))
	}
	sort.Strings(ks)
	if len(ks) == 1 {
		if single {
			return ks[0]
		}
		return "[" + ks[0] + "]"
	}
	if single {
		return "(" + strings.Join(ks, " || ") + ")"
	}
	return "[" + strings.Join(ks, " || ") + "]"
}

// selPhi renders a phi that is not loop-carried as a selection: the distinct incoming values, each
// with the disjunction of branch conjunctions (relative to the immediate dominator of the join)
// under which it is the one that arrives. `x := a; if p && q { x = b }` and the same with `p && q`
// moved into a predicate helper, or with the branches swapped under the negated condition, give the
// same term.
func (c *Canon) selPhi(v *ssa.Phi, d int) (string, bool) {
	f := c.owner
	if f == nil || v.Parent() != f.fn || len(v.Edges) < 2 || len(v.Edges) > 8 {
		return "", false
	}
	blk := v.Block()
	idom := blk.Idom()
	if idom == nil {
		return "", false
	}
	for _, p := range blk.Preds {
		if blk.Dominates(p) {
			return "", false
		}
	}
	rej, _ := f.rejEdges()
	base := map[[2]int]bool{}
	for _, ce := range f.context(idom, rej) {
		base[[2]int{ce.blk.Index, ce.succ}] = true
	}
	groups := map[string][][]string{}
	rxs := c.rotExits(v)
edges:
	for i, e := range v.Edges {
		pred := blk.Preds[i]
		from := pred // the block whose conditions say when this input arrives
		natural := false
		for _, rx := range rxs {
			if pred == rx.rl.pre {
				continue edges // merged with the latch input below
			}
			if pred == rx.rl.latch {
				e, from, natural = rx.carried, rx.rl.pre, true
			}
		}
		val := c.termD(e, d+1)
		var atoms []string
		for _, ce := range f.context(from, rej) {
			if !base[[2]int{ce.blk.Index, ce.succ}] {
				atoms = append(atoms, ce.atom)
			}
		}
		alts := [][]string{nil}
		if iff := f.ifOf(pred); iff != nil && pred.Succs[0] != pred.Succs[1] && !natural {
			for k, sc := range pred.Succs {
				if sc != blk {
					continue
				}
				if f.isLoopExit(pred, k) {
					continue // the loop ran out: no condition of its own
				}
				if la, ok := f.loopCondAtom(pred, iff, k); ok {
					alts = [][]string{{la}}
				} else if ps, ok := f.condPaths(iff.Cond, k == 0, false, 0); ok && len(ps) > 0 {
					alts = ps
				} else {
					alts = [][]string{{c.condAtom(iff.Cond, k == 0)}}
				}
			}
		}
		for _, alt := range alts {
			q := simplifyAtoms(append(append([]string{}, atoms...), alt...))
			if len(q) == 0 {
				return "", false // arrives unconditionally: not a selection
			}
			groups[val] = append(groups[val], q)
		}
	}
	if len(groups) < 2 || len(groups) > 4 {
		return "", false
	}
	type grp struct {
		val  string
		n    int
		cond string
	}
	var gs []grp
	for val, ks := range groups {
		xs := simplifyDNF(ks)
		if len(xs) > maxCondPaths {
			return "", false
		}
		gs = append(gs, grp{val, len(xs), renderDNF(xs)})
	}
	sort.Slice(gs, func(i, j int) bool {
		if gs[i].n != gs[j].n {
			return gs[i].n < gs[j].n
		}
		if gs[i].cond != gs[j].cond {
			return gs[i].cond < gs[j].cond
		}
		return gs[i].val < gs[j].val
	})
	// the last group is "otherwise"
	s := gs[len(gs)-1].val
	for i := len(gs) - 2; i >= 0; i-- {
		s = "ite(" + gs[i].cond + "; " + gs[i].val + "; " + s + ")"
	}
	return s, true
}
