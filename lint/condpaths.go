package main

import (
	"go/constant"
	"go/token"
	"go/types"
	"sort"
	"strings"

	"golang.org/x/tools/go/ssa"
)

// A branch on a boolean that was computed earlier — `ok := a && b; if !ok {…}`, or the result of an
// unreviewed predicate helper — is the same decision as branching on the expression directly. go/ssa
// lowers `if a && b` to a chain of branches but `ok := a && b` to a phi; condPaths unfolds such a
// value into the conjunctions under which it has the wanted truth value, which are exactly the
// conjunction sets the chain of branches yields.
//
// guard=true mimics what the guard computation does for a chain of rejecting branches: an edge
// whose other side already yields the wanted value ("the earlier alternative did not fire") is not
// part of the later alternative's set.

const maxCondPaths = 8

type yieldTarget struct {
	ph   *ssa.Phi
	want bool
}

func (f *FuncFacts) condPaths(cond ssa.Value, want bool, guard bool, depth int) ([][]string, bool) {
	return f.condPathsY(cond, want, guard, depth, nil)
}

func (f *FuncFacts) condPathsY(cond ssa.Value, want bool, guard bool, depth int, outer []yieldTarget) ([][]string, bool) {
	if depth > 4 {
		return nil, false
	}
	switch v := cond.(type) {
	case *ssa.UnOp:
		if v.Op == token.NOT {
			return f.condPathsY(v.X, !want, guard, depth, outer)
		}
	case *ssa.Const:
		if v.Value != nil && v.Value.Kind() == constant.Bool {
			if constant.BoolVal(v.Value) == want {
				return [][]string{{}}, true
			}
			return nil, true
		}
	case *ssa.Call:
		hf := f.c.inlined(v.Common())
		if hf == nil || hf.mode != rejNone || v.Common().Signature().Results().Len() != 1 {
			break
		}
		var out [][]string
		for _, ri := range hf.rets {
			if ri.ins == nil || len(ri.ins.Results) != 1 {
				return nil, false
			}
			rv := unspill(ri.ins.Results[0], ri.blk)
			sub, ok := hf.condPathsY(rv, want, guard, depth+1, nil)
			if !ok {
				return nil, false
			}
			base := hf.leafContext(ri.blk, []yieldTarget{{nil, want}}, guard)
			for _, p := range sub {
				out = append(out, append(append([]string{}, base...), p...))
			}
		}
		if len(out) > maxCondPaths {
			return nil, false
		}
		return out, true
	case *ssa.Phi:
		if v.Parent() != f.fn || len(v.Edges) < 2 || len(v.Edges) > 4 {
			break
		}
		for i := range v.Edges {
			if v.Block().Dominates(v.Block().Preds[i]) {
				return nil, false // loop-carried
			}
		}
		var out [][]string
		for i, e := range v.Edges {
			pred := v.Block().Preds[i]
			targets := append(append([]yieldTarget{}, outer...), yieldTarget{v, want})
			sub, ok := f.condPathsY(e, want, guard, depth+1, targets)
			if !ok {
				return nil, false
			}
			if len(sub) == 0 {
				continue
			}
			base := f.leafContext(pred, targets, guard)
			if iff := f.ifOf(pred); iff != nil && pred.Succs[0] != pred.Succs[1] {
				for k, sc := range pred.Succs {
					if sc == v.Block() {
						base = append(base, f.c.condAtom(iff.Cond, k == 0))
					}
				}
			}
			for _, p := range sub {
				out = append(out, append(append([]string{}, base...), p...))
			}
		}
		if len(out) > maxCondPaths {
			return nil, false
		}
		return out, true
	}
	return [][]string{{f.c.condAtom(cond, want)}}, true
}

// yields: taking edge (d,k) produces the wanted truth value at once — the phi gets the constant
// `want` from d, or the edge leads to a return of the constant `want`.
func (f *FuncFacts) yields(d *ssa.BasicBlock, k int, ph *ssa.Phi, want bool) bool {
	t := d.Succs[k]
	if ph != nil && t == ph.Block() {
		for i, p := range t.Preds {
			if p == d {
				if c, ok := ph.Edges[i].(*ssa.Const); ok && c.Value != nil && c.Value.Kind() == constant.Bool {
					return constant.BoolVal(c.Value) == want
				}
			}
		}
		return false
	}
	if ph == nil {
		if ri := f.retOf[t]; ri != nil && ri.ins != nil && len(ri.ins.Results) == 1 && len(t.Preds) == 1 {
			if c, ok := unspill(ri.ins.Results[0], t).(*ssa.Const); ok && c.Value != nil && c.Value.Kind() == constant.Bool {
				return constant.BoolVal(c.Value) == want
			}
		}
	}
	return false
}

// leafContext: the branch atoms needed to reach block b (a predecessor of the phi, or a returning
// block of a predicate helper).
func (f *FuncFacts) leafContext(b *ssa.BasicBlock, targets []yieldTarget, guard bool) []string {
	rejEdge, _ := f.rejEdges()
	var atoms []string
	for _, c := range f.context(b, rejEdge) {
		drop := false
		if guard {
			for _, t := range targets {
				if f.yields(c.blk, 1-c.succ, t.ph, t.want) {
					drop = true
				}
			}
		}
		if !drop {
			atoms = append(atoms, c.atom)
		}
	}
	return atoms
}

func pathKey(p []string) string {
	q := simplifyAtoms(append([]string{}, p...))
	sort.Strings(q)
	return strings.Join(q, " && ")
}

func (f *FuncFacts) isInlinedCall(v ssa.Value) bool {
	for {
		u, ok := v.(*ssa.UnOp)
		if !ok || u.Op != token.NOT {
			break
		}
		v = u.X
	}
	call, ok := v.(*ssa.Call)
	return ok && f.c.inlined(call.Common()) != nil
}

// boolReturn: in a predicate-style function `return <bool expression>` is the same decision as
// `if !<expression> { return false }; return true`. The conjunctions under which the expression has
// the failing value are returned; each becomes a rejection of the function.
func (f *FuncFacts) boolReturn(ri *retInfo) ([][]string, bool) {
	if ri.ins == nil || ri.kind != retMaybe || (f.mode != rejFalse && f.mode != rejTrue) || len(ri.ins.Results) == 0 {
		return nil, false
	}
	v := unspill(ri.ins.Results[len(ri.ins.Results)-1], ri.blk)
	if _, isConst := v.(*ssa.Const); isConst {
		return nil, false
	}
	if b, ok := v.Type().Underlying().(*types.Basic); !ok || b.Kind() != types.Bool {
		return nil, false
	}
	failing := f.mode == rejTrue
	fail, ok := f.condPaths(v, failing, true, 0)
	if !ok || len(fail) == 0 {
		return nil, false
	}
	if acc, ok := f.condPaths(v, !failing, true, 0); !ok || len(acc) == 0 {
		return nil, false
	}
	return fail, true
}
