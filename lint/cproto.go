package main

// E5 protocol tables per property: named constants, network parameters, opcode table.
// Values come from Bitcoin Core (consensus/consensus.h, script/script.h, policy/policy.h,
// kernel/chainparams.cpp, net.h, protocol.h) and the BIPs; simnet values from btcd's own docs.
func init() {
	bc := btcd + "/blockchain"
	ts := btcd + "/txscript/v2"
	consensus := map[string]string{
		"MaxBlockWeight": "4000000", "MaxBlockBaseSize": "1000000", "MaxBlockSigOpsCost": "80000", "WitnessScaleFactor": "4",
		"MaxTimeOffsetSeconds": "7200", "MinCoinbaseScriptLen": "2", "MaxCoinbaseScriptLen": "100", "medianTimeBlocks": "11",
		"baseSubsidy": "5000000000", "maxTimeWarp": "600000000000", "CoinbaseWitnessDataLen": "32", "CoinbaseWitnessPkScriptLength": "38",
		"serializedHeightVersion": "2",
	}
	scriptLimits := map[string]string{
		"MaxStackSize": "1000", "MaxScriptSize": "10000", "MaxOpsPerScript": "201", "MaxPubKeysPerMultiSig": "20", "MaxScriptElementSize": "520",
		"LockTimeThreshold": "500000000", "maxScriptNumLen": "4", "cltvMaxScriptNumLen": "5", "TaprootAnnexTag": "80", "TaprootLeafMask": "254",
		"BaseLeafVersion": "192", "ControlBlockBaseSize": "33", "ControlBlockNodeSize": "32", "ControlBlockMaxNodeCount": "128", "ControlBlockMaxSize": "4129",
	}
	wireC := map[string]string{
		"MaxMessagePayload": "33554432", "MaxBlockPayload": "4000000", "MaxInvPerMsg": "50000", "MaxAddrPerMsg": "1000", "MaxBlockHeadersPerMsg": "2000",
		"MaxBlockLocatorsPerMsg": "500", "MaxVarIntPayload": "9", "CommandSize": "12", "MessageHeaderSize": "24", "MaxUserAgentLen": "256",
		"MaxFilterLoadHashFuncs": "50", "MaxFilterLoadFilterSize": "36000", "MaxFilterAddDataSize": "520",
		"SequenceLockTimeDisabled": "2147483648", "SequenceLockTimeIsSeconds": "4194304", "SequenceLockTimeMask": "65535", "SequenceLockTimeGranularity": "9",
		"MaxTxInSequenceNum": "4294967295", "MaxPrevOutIndex": "4294967295", "MaxCFHeadersPerMsg": "2000",
	}
	extra("C01", func(p *Program, r *Report) {
		ruleConstants(p, r, bc, consensus, "Bitcoin Core consensus.h / validation.cpp, BIP34/94/141")
	})
	extra("C09", func(p *Program, r *Report) {
		ruleConstants(p, r, bc, map[string]string{"baseSubsidy": "5000000000", "medianTimeBlocks": "11", "MaxTimeOffsetSeconds": "7200", "maxTimeWarp": "600000000000"}, "Bitcoin Core validation.cpp / chain.h / BIP94")
		pow := map[string]map[string]string{
			"MainNetParams":       {"PowLimitBits": "486604799", "TargetTimespan": "1209600000000000", "TargetTimePerBlock": "600000000000", "RetargetAdjustmentFactor": "4", "ReduceMinDifficulty": "false", "SubsidyReductionInterval": "210000", "CoinbaseMaturity": "100", "BIP0034Height": "227931", "BIP0065Height": "388381", "BIP0066Height": "363725", "EnforceBIP94": "<zero>", "PoWNoRetargeting": "<zero>"},
			"TestNet3Params":      {"PowLimitBits": "486604799", "TargetTimespan": "1209600000000000", "TargetTimePerBlock": "600000000000", "RetargetAdjustmentFactor": "4", "ReduceMinDifficulty": "true", "MinDiffReductionTime": "1200000000000", "SubsidyReductionInterval": "210000", "CoinbaseMaturity": "100", "BIP0034Height": "21111", "BIP0065Height": "581885", "BIP0066Height": "330776", "EnforceBIP94": "<zero>"},
			"TestNet4Params":      {"PowLimitBits": "486604799", "TargetTimespan": "1209600000000000", "TargetTimePerBlock": "600000000000", "RetargetAdjustmentFactor": "4", "ReduceMinDifficulty": "true", "MinDiffReductionTime": "1200000000000", "SubsidyReductionInterval": "210000", "CoinbaseMaturity": "100", "BIP0034Height": "1", "BIP0065Height": "1", "BIP0066Height": "1", "EnforceBIP94": "true"},
			"RegressionNetParams": {"PowLimitBits": "545259519", "TargetTimespan": "1209600000000000", "TargetTimePerBlock": "600000000000", "RetargetAdjustmentFactor": "4", "ReduceMinDifficulty": "true", "SubsidyReductionInterval": "150", "CoinbaseMaturity": "100", "PoWNoRetargeting": "true"},
			"SimNetParams":        {"PowLimitBits": "545259519", "TargetTimespan": "1209600000000000", "TargetTimePerBlock": "600000000000", "RetargetAdjustmentFactor": "4", "ReduceMinDifficulty": "true", "SubsidyReductionInterval": "210000", "CoinbaseMaturity": "100"},
		}
		for _, n := range []string{"MainNetParams", "TestNet3Params", "TestNet4Params", "RegressionNetParams", "SimNetParams"} {
			ruleParamsTable(p, r, n, pow[n])
		}
		r.need("params", 50)
	})
	extra("C06", func(p *Program, r *Report) {
		ruleOpcodeTable(p, r)
		ruleConstants(p, r, ts, scriptLimits, "Bitcoin Core script.h / interpreter.cpp, BIP65/341/342")
	})
	extra("C08", func(p *Program, r *Report) {
		ruleConstants(p, r, wirePkg, wireC, "Bitcoin Core net.h / protocol.h / net_processing.cpp, BIP37/68/157")
	})
	extra("C13", func(p *Program, r *Report) {
		ruleConstants(p, r, bc, map[string]string{"MaxBlockWeight": "4000000", "MaxBlockBaseSize": "1000000", "MaxBlockSigOpsCost": "80000", "WitnessScaleFactor": "4", "CoinbaseWitnessDataLen": "32", "CoinbaseWitnessPkScriptLength": "38"}, "BIP141")
		ruleConstants(p, r, wirePkg, map[string]string{"SequenceLockTimeDisabled": "2147483648", "SequenceLockTimeIsSeconds": "4194304", "SequenceLockTimeMask": "65535", "SequenceLockTimeGranularity": "9"}, "BIP68")
		ruleConstants(p, r, ts, map[string]string{"LockTimeThreshold": "500000000", "MaxPubKeysPerMultiSig": "20"}, "script.h")
	})
	extra("C10", func(p *Program, r *Report) {
		ruleConstants(p, r, mempoolPkg, map[string]string{"MaxRBFSequence": "4294967293", "MaxReplacementEvictions": "100", "MinStandardTxNonWitnessSize": "65",
			"maxStandardP2SHSigOps": "15", "maxStandardTxWeight": "400000", "maxStandardSigScriptSize": "1650", "DefaultMinRelayTxFee": "1000", "maxStandardMultiSigKeys": "3"},
			"BIP125 / Bitcoin Core policy.h")
	})
	extra("C19", func(p *Program, r *Report) {
		ruleConstants(p, r, btcd+"/v2transport", map[string]string{"rekeyInterval": "224", "keySize": "32", "ignoreBitPos": "7", "garbageSize": "16",
			"MaxGarbageLen": "4095", "maxContentLen": "16777215", "lengthFieldLen": "3", "headerLen": "1"}, "BIP324")
	})
	extra("C20", func(p *Program, r *Report) {
		ruleConstants(p, r, btcd+"/btcutil/v2/gcs/builder", map[string]string{"DefaultP": "19", "DefaultM": "784931"}, "BIP158")
		ruleConstants(p, r, wirePkg, map[string]string{"MaxFilterLoadHashFuncs": "50", "MaxFilterLoadFilterSize": "36000", "MaxFilterAddDataSize": "520"}, "BIP37")
	})
	extra("C16", func(p *Program, r *Report) {
		net := map[string]map[string]string{
			"MainNetParams":       {"PubKeyHashAddrID": "0", "ScriptHashAddrID": "5", "PrivateKeyID": "128", "Bech32HRPSegwit": "bc", "HDPrivateKeyID": "{4,136,173,228}", "HDPublicKeyID": "{4,136,178,30}", "HDCoinType": "0", "Net": "3652501241", "DefaultPort": "8333"},
			"TestNet3Params":      {"PubKeyHashAddrID": "111", "ScriptHashAddrID": "196", "PrivateKeyID": "239", "Bech32HRPSegwit": "tb", "HDPrivateKeyID": "{4,53,131,148}", "HDPublicKeyID": "{4,53,135,207}", "HDCoinType": "1", "Net": "118034699", "DefaultPort": "18333"},
			"TestNet4Params":      {"PubKeyHashAddrID": "111", "ScriptHashAddrID": "196", "PrivateKeyID": "239", "Bech32HRPSegwit": "tb", "HDPrivateKeyID": "{4,53,131,148}", "HDPublicKeyID": "{4,53,135,207}", "HDCoinType": "1", "Net": "675223068", "DefaultPort": "48333"},
			"RegressionNetParams": {"PubKeyHashAddrID": "111", "ScriptHashAddrID": "196", "PrivateKeyID": "239", "Bech32HRPSegwit": "bcrt", "HDPrivateKeyID": "{4,53,131,148}", "HDPublicKeyID": "{4,53,135,207}", "HDCoinType": "1", "Net": "3669344250", "DefaultPort": "18444"},
			"SimNetParams":        {"PubKeyHashAddrID": "63", "ScriptHashAddrID": "123", "PrivateKeyID": "100", "Bech32HRPSegwit": "sb", "HDPrivateKeyID": "{4,32,185,0}", "HDPublicKeyID": "{4,32,189,58}", "HDCoinType": "115", "Net": "303307798", "DefaultPort": "18555"},
		}
		for _, n := range []string{"MainNetParams", "TestNet3Params", "TestNet4Params", "RegressionNetParams", "SimNetParams"} {
			ruleParamsTable(p, r, n, net[n])
		}
		// mainnet must not share an identifier with any other network
		for _, f := range []string{"PubKeyHashAddrID", "ScriptHashAddrID", "PrivateKeyID", "Bech32HRPSegwit", "HDPrivateKeyID", "HDPublicKeyID", "Net"} {
			ok := true
			for _, n := range []string{"TestNet3Params", "TestNet4Params", "RegressionNetParams", "SimNetParams"} {
				if net[n][f] == net["MainNetParams"][f] {
					ok = false
				}
			}
			if ok {
				r.pass("net-separation", "mainnet "+f+" distinct from every other network", "", net["MainNetParams"][f])
			} else {
				r.fail("net-separation", "mainnet "+f, "", "shared with another network")
			}
		}
	})
	extra("C14", func(p *Program, r *Report) {
		dep := map[string]map[string]string{
			"MainNetParams":       {"RuleChangeActivationThreshold": "1916", "MinerConfirmationWindow": "2016"},
			"TestNet3Params":      {"RuleChangeActivationThreshold": "1512", "MinerConfirmationWindow": "2016"},
			"TestNet4Params":      {"RuleChangeActivationThreshold": "1512", "MinerConfirmationWindow": "2016"},
			"RegressionNetParams": {"RuleChangeActivationThreshold": "108", "MinerConfirmationWindow": "144"},
			"SimNetParams":        {"RuleChangeActivationThreshold": "75", "MinerConfirmationWindow": "100"},
		}
		for _, n := range []string{"MainNetParams", "TestNet3Params", "TestNet4Params", "RegressionNetParams", "SimNetParams"} {
			ruleParamsTable(p, r, n, dep[n])
		}
		ruleDeployments(p, r)
		ruleBIP9Edges(p, r)
		ruleConstants(p, r, bc, map[string]string{"vbTopBits": "536870912", "vbTopMask": "3758096384", "vbNumBits": "29"}, "BIP9")
	})
}

func init() {
	bc := btcd + "/blockchain"
	extra("C15", func(p *Program, r *Report) {
		ruleFieldOrderPairs(p, r, []codecPair{
			{bc + ".putSpentTxOut", bc + ".decodeSpentTxOut", "SpentTxOut"},
		})
	})
	extra("C05", func(p *Program, r *Report) {
		ff := btcd + "/database/ffldb"
		ruleFieldOrderPairs(p, r, []codecPair{{ff + ".serializeBlockLoc", ff + ".deserializeBlockLoc", "blockLocation"}})
	})
	extra("C08", func(p *Program, r *Report) {
		ruleFieldOrderPairs(p, r, []codecPair{
			{wirePkg + ".writeBlockHeaderBuf", wirePkg + ".readBlockHeaderBuf", "BlockHeader"},
			{wirePkg + ".writeNetAddressBuf", wirePkg + ".readNetAddressBuf", "NetAddress"},
			{wirePkg + ".writeTxInBuf", wirePkg + ".readTxInBuf", "TxIn"},
			{wirePkg + ".WriteTxOutBuf", wirePkg + ".readTxOutBuf", "TxOut"},
		})
	})
}

func init() {
	// relation between two wire constants: one transaction's scripts are read into a single slab,
	// so the slab must hold the largest witness item the decoder accepts.
	extra("C08", func(p *Program, r *Report) {
		ruleConstants(p, r, wirePkg, map[string]string{"scriptSlabSize": "4194304", "maxWitnessItemSize": "4000000", "maxWitnessItemsPerInput": "4000000",
			"minTxInPayload": "41", "MinTxOutPayload": "9", "freeListMaxItems": "125"},
			"btcd wire: slab (4 MiB) >= largest accepted witness item (4,000,000); minimum serialized sizes of an input (36+4+1) and output (8+1)")
	})
}
