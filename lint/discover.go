package main

import (
	"fmt"
	"sort"
	"strings"

	"golang.org/x/tools/go/ssa"
)

// discoverGuards prints the rejection profile of a function in the format of
// the rules files, for review and freezing.
func discoverGuards(p *Program, name string, mode string, track []string) error {
	fn := p.Func(name)
	if fn == nil {
		return fmt.Errorf("cannot resolve %s", name)
	}
	m := defaultRejectMode(fn)
	if mode != "" {
		var ok bool
		if m, ok = parseRejectMode(mode); !ok {
			return fmt.Errorf("bad mode %s", mode)
		}
	}
	f := p.progFor(fn.Pkg.Pkg.Path()).facts(fn, m)
	fmt.Printf("func %s reject=%s params=%s\n", fullFuncName(fn), m, paramList(fn))
	gs := f.Guards()
	sort.SliceStable(gs, func(i, j int) bool { return gs[i].Pos < gs[j].Pos })
	for _, g := range gs {
		fmt.Printf("  guard %s    # %s", g.Key(), p.pos(g.Pos))
		if g.Avoid != "" {
			fmt.Printf(" AVOIDABLE: %s", g.Avoid)
		}
		fmt.Println()
	}
	if len(track) > 0 {
		for _, e := range f.Events() {
			for _, t := range track {
				if t == "*" && e.Pure {
					continue
				}
				if t != "" && (t == "*" || strings.Contains(e.Head(), t)) {
					fmt.Printf("  effect %s    # %s\n", effectKey(f, e), p.pos(e.Pos))
					break
				}
			}
		}
	}
	as := f.Accepts()
	sort.SliceStable(as, func(i, j int) bool { return as[i].Pos < as[j].Pos })
	for _, a := range as {
		fmt.Printf("  exit %s    # %s\n", a.Key(), p.pos(a.Pos))
	}
	for _, r := range f.rets {
		k := [...]string{"accept", "fail", "forward", "maybe"}[r.kind]
		fmt.Printf("  # return %s %s at %s\n", k, f.retCode(r), p.pos(f.retPos(r)))
	}
	return nil
}

func paramList(fn *ssa.Function) string {
	var xs []string
	for _, p := range fn.Params {
		xs = append(xs, p.Name())
	}
	for _, p := range fn.FreeVars {
		xs = append(xs, p.Name())
	}
	// a closure's terms may mention the enclosing functions' parameters (captured values)
	seen := map[string]bool{}
	for _, x := range xs {
		seen[x] = true
	}
	for par := fn.Parent(); par != nil; par = par.Parent() {
		for _, p := range par.Params {
			if !seen[p.Name()] {
				seen[p.Name()] = true
				xs = append(xs, p.Name())
			}
		}
	}
	return strings.Join(xs, ",")
}

// discoverEvents prints every event of a function in "effect" format.
func discoverEvents(p *Program, name string, filters []string) error {
	fn := p.Func(name)
	if fn == nil {
		return fmt.Errorf("cannot resolve %s", name)
	}
	f := p.progFor(fn.Pkg.Pkg.Path()).facts(fn, defaultRejectMode(fn))
	fmt.Printf("func %s reject=%s params=%s\n", name, defaultRejectMode(fn), paramList(fn))
	for _, e := range f.Events() {
		if len(filters) > 0 {
			ok := false
			for _, fl := range filters {
				if strings.Contains(e.Full(), fl) {
					ok = true
				}
			}
			if !ok {
				continue
			}
		}
		fmt.Printf("  effect %s    # %s\n", effectKey(f, e), p.pos(e.Pos))
	}
	return nil
}

// fullFuncName is the resolvable name of a function: pkg.Func, pkg.(*T).M, with $n for closures.
func fullFuncName(fn *ssa.Function) string {
	if fn.Parent() != nil {
		par := fn.Parent()
		for i, a := range par.AnonFuncs {
			if a == fn {
				return fmt.Sprintf("%s$%d", fullFuncName(par), i+1)
			}
		}
	}
	s := reviewedName(fn)
	// (*pkg.T).M -> pkg.(*T).M ; (pkg.T).M -> pkg.(T).M
	if strings.HasPrefix(s, "(") {
		i := strings.Index(s, ").")
		recv := s[1:i]
		star := ""
		if strings.HasPrefix(recv, "*") {
			star = "*"
			recv = recv[1:]
		}
		j := strings.LastIndex(recv, ".")
		return recv[:j] + ".(" + star + recv[j+1:] + ")." + s[i+2:]
	}
	return s
}

// fullFuncName0: table-format name of the function as it is called now (no rename mapping).
func fullFuncName0(fn *ssa.Function) string {
	s := fn.String()
	if strings.HasPrefix(s, "(") {
		i := strings.Index(s, ").")
		recv := s[1:i]
		star := ""
		if strings.HasPrefix(recv, "*") {
			star = "*"
			recv = recv[1:]
		}
		j := strings.LastIndex(recv, ".")
		return recv[:j] + ".(" + star + recv[j+1:] + ")." + s[i+2:]
	}
	return s
}
