package main

// E4 rule instances per property: ownership (who writes / who calls), entry lock discipline,
// guarded fields. Every exception is a single named symbol with its reason.
func init() {
	bc := btcd + "/blockchain"
	m := func(kv ...string) map[string]string {
		out := map[string]string{}
		for i := 0; i+1 < len(kv); i += 2 {
			out[kv[i]] = kv[i+1]
		}
		return out
	}
	extra("C02", func(p *Program, r *Report) {
		ruleCallers(p, r, bc+".(*chainView).SetTip", m(
			"(*blockchain.BlockChain).connectBlock", "after the committing db.Update",
			"(*blockchain.BlockChain).disconnectBlock", "after the committing db.Update",
			"(*blockchain.BlockChain).initChainState$2", "startup, before the chain is shared",
			"(*blockchain.BlockChain).createChainState", "startup, before the chain is shared",
			"(*blockchain.BlockChain).maybeAcceptBlockHeader", "best-header view only",
		))
		ruleWriters(p, r, bc+".BlockChain.stateSnapshot", m(
			"(*blockchain.BlockChain).connectBlock", "tip moved forward",
			"(*blockchain.BlockChain).disconnectBlock", "tip moved back",
			"(*blockchain.BlockChain).initChainState$2", "startup",
			"(*blockchain.BlockChain).createChainState", "startup",
		))
		ruleWriters(p, r, bc+".blockNode.status", m(
			"(*blockchain.blockIndex).SetStatusFlags", "the only mutator, under the index lock",
			"(*blockchain.blockIndex).UnsetStatusFlags", "the only mutator, under the index lock",
			"blockchain.initBlockNode", "?constructor before publication",
			"(*blockchain.BlockChain).initChainState$2", "loading the index at startup, before publication",
			"(*blockchain.BlockChain).createChainState", "?genesis node at startup",
			"(*blockchain.BlockChain).maybeAcceptBlock", "fresh node, before AddNode publishes it",
			"(*blockchain.BlockChain).maybeAcceptBlockHeader", "fresh node, before AddNode publishes it",
		))
		ruleWriters(p, r, bc+".BlockChain.orphans", m(
			"(*blockchain.BlockChain).addOrphanBlock", "owner", "(*blockchain.BlockChain).removeOrphanBlock", "owner", "blockchain.New", "constructor"))
		ruleWriters(p, r, bc+".BlockChain.prevOrphans", m(
			"(*blockchain.BlockChain).addOrphanBlock", "owner", "(*blockchain.BlockChain).removeOrphanBlock", "owner", "blockchain.New", "constructor"))
		ruleWriters(p, r, bc+".blockNode.workSum", m("blockchain.initBlockNode", "parent work + CalcWork(bits), once"))
		mu := p.fieldOf(bc + ".BlockChain.chainLock")
		if mu == nil {
			r.fail("anchor", "BlockChain.chainLock", "", "mutex not found")
			return
		}
		la := newLockAnalysis(p, mu, []string{bc}, nil)
		for _, f := range []string{"connectBlock", "disconnectBlock", "reorganizeChain", "connectBestChain", "maybeAcceptBlock", "maybeAcceptBlockHeader", "getReorganizeNodes", "verifyReorganizationValidity", "addOrphanBlock", "removeOrphanBlock"} {
			ruleEntryLocked(p, r, la, "chainLock", bc+".(*BlockChain)."+f, 2)
		}
		ruleEntryLocked(p, r, la, "chainLock", bc+".(*BlockChain).processOrphans", 2)
		r.need("entry-locked", 10)
		sl := p.fieldOf(bc + ".BlockChain.stateLock")
		if sl != nil {
			la2 := newLockAnalysis(p, sl, []string{bc}, nil)
			ruleGuarded(p, r, la2, "stateLock", bc+".BlockChain.stateSnapshot", m(
				"(*blockchain.BlockChain).initChainState$2", "startup, single goroutine",
				"(*blockchain.BlockChain).createChainState$1", "startup, single goroutine",
				"(*blockchain.BlockChain).createChainState", "startup, single goroutine",
				"blockchain.New", "constructor, before the chain is shared"))
		}
	})
	extra("C03", func(p *Program, r *Report) {
		ruleWriters(p, r, bc+".mapSlice.maps", m(
			"(*blockchain.mapSlice).put", "owner", "(*blockchain.mapSlice).delete", "owner", "(*blockchain.mapSlice).makeNewMap", "owner", "(*blockchain.mapSlice).deleteMaps", "owner", "(*blockchain.utxoCache).writeCache", "removes flushed entries while iterating",
			"blockchain.newUtxoCache", "?constructor"))
		ruleWriters(p, r, bc+".utxoCache.lastFlushHash", m(
			"(*blockchain.utxoCache).writeCache", "set after the consistency marker is written",
			"(*blockchain.BlockChain).InitConsistentState", "startup reconciliation"))
		ruleWriters(p, r, bc+".UtxoEntry.packedFlags", m(
			"(*blockchain.UtxoEntry).Spend", "tfSpent|tfModified",
			"(*blockchain.utxoCache).addTxOut", "?new entry flags",
			"(*blockchain.UtxoViewpoint).addTxOut", "new or overwritten entry: fresh|modified(+coinbase)",
			"(*blockchain.UtxoViewpoint).disconnectTransactions", "resurrected / marked spent on disconnect",
			"(*blockchain.UtxoViewpoint).fetchEntryByHash", "?",
			"(*blockchain.UtxoViewpoint).commit", "clears tfModified after the view has been written",
			"blockchain.deserializeUtxoEntry", "?decoding",
			"blockchain.deserializeUtxoEntryV0", "?upgrade decoding",
			"(*blockchain.UtxoEntry).Clone", "?copy",
			"blockchain.NewUtxoEntry", "?constructor",
		))
	})
	extra("C05", func(p *Program, r *Report) {
		ff := btcd + "/database/ffldb"
		ruleWriters(p, r, ff+".dbCache.cachedKeys", m("(*database/ffldb.dbCache).flush", "reset after a flush", "(*database/ffldb.dbCache).commitTx", "atomic swap under cacheLock", "database/ffldb.newDbCache", "constructor"))
		ruleWriters(p, r, ff+".dbCache.cachedRemove", m("(*database/ffldb.dbCache).flush", "reset after a flush", "(*database/ffldb.dbCache).commitTx", "atomic swap under cacheLock", "database/ffldb.newDbCache", "constructor"))
		ruleWriters(p, r, ff+".transaction.pendingKeys", m("(*database/ffldb.db).begin", "fresh per transaction", "(*database/ffldb.dbCache).commitTx", "cleared once applied to the cache", "(*database/ffldb.transaction).close", "cleared"))
		ruleWriters(p, r, ff+".transaction.pendingRemove", m("(*database/ffldb.db).begin", "fresh per transaction", "(*database/ffldb.dbCache).commitTx", "cleared once applied to the cache", "(*database/ffldb.transaction).close", "cleared"))
		ruleCallers(p, r, ff+".(*dbCache).commitTx", m("(*database/ffldb.transaction).writePendingAndCommit", "the only commit path"))
		ruleCallers(p, r, ff+".(*transaction).writePendingAndCommit", m("(*database/ffldb.transaction).Commit", "the only commit path"))
		mu := p.fieldOf(ff + ".dbCache.cacheLock")
		if mu != nil {
			la := newLockAnalysis(p, mu, []string{ff}, nil)
			exc := m("database/ffldb.newDbCache", "constructor")
			ruleGuarded(p, r, la, "cacheLock", ff+".dbCache.cachedKeys", exc)
			ruleGuarded(p, r, la, "cacheLock", ff+".dbCache.cachedRemove", exc)
			ruleCallUnderLock(p, r, la, "cacheLock", ff+".(*dbCache).Snapshot", "leveldb.DB).GetSnapshot", 1,
				"the database snapshot and the cache roots must be read in one critical section: flush commits the cache to leveldb and then clears it under the write lock")
		}
		ruleTreapFreshness(p, r)
	})
	extra("C17", func(p *Program, r *Report) {
		mu := p.fieldOf(bc + ".chainView.mtx")
		if mu == nil {
			r.fail("anchor", "chainView.mtx", "", "mutex not found")
			return
		}
		la := newLockAnalysisX(p, mu, []string{bc}, nil, m(
			"blockchain.newChainView", "constructor: the view is not yet shared",
			"(*blockchain.BlockChain).BlockLocatorFromHash", "holds chainLock.RLock, and every SetTip caller holds chainLock for writing (C02 entry-locked rule)"))
		ruleGuarded(p, r, la, "chainView.mtx", bc+".chainView.nodes", nil)
		ruleWriters(p, r, bc+".blockNode.ancestor", m("(*blockchain.blockNode).buildAncestor", "skip pointer built once from the parent", "blockchain.initBlockNode", "?"))
	})
}

func init() {
	pe := btcd + "/peer"
	m := func(kv ...string) map[string]string {
		out := map[string]string{}
		for i := 0; i+1 < len(kv); i += 2 {
			out[kv[i]] = kv[i+1]
		}
		return out
	}
	extra("C18", func(p *Program, r *Report) {
		// atomic-only counters and flags
		for _, f := range []string{"bytesReceived", "bytesSent", "lastRecv", "lastSend", "connected", "disconnect"} {
			ruleAtomicOnly(p, r, pe+".Peer."+f, nil)
		}
		// single closer per quit channel
		ruleCloseSites(p, r, pe+".Peer.quit", m("(*peer.Peer).Disconnect", "behind the disconnect CAS guard"))
		ruleCloseSites(p, r, pe+".Peer.inQuit", m("(*peer.Peer).inHandler", "end of handler"))
		ruleCloseSites(p, r, pe+".Peer.queueQuit", m("(*peer.Peer).queueHandler", "end of handler"))
		ruleCloseSites(p, r, pe+".Peer.outQuit", m("(*peer.Peer).outHandler", "end of handler"))
		// handlers are started only by start(), i.e. after negotiation succeeded
		for _, h := range []string{"stallHandler", "inHandler", "queueHandler", "outHandler", "pingHandler"} {
			ruleGoOnlyIn(p, r, pe+".(*Peer)."+h, m("(*peer.Peer).start", "after the negotiation result"))
		}
		r.need("go-site", 5)
		r.need("close-site", 4)
		// mutex-guarded field groups, as the struct declares them
		grp := func(mutex string, fields []string, exc map[string]string, ignore map[string]string, writesOnly ...bool) {
			mu := p.fieldOf(pe + ".Peer." + mutex)
			if mu == nil {
				r.fail("anchor", "peer.Peer."+mutex, "", "mutex not found")
				return
			}
			la := newLockAnalysisX(p, mu, []string{pe}, nil, ignore)
			for _, f := range fields {
				ruleGuardedX(p, r, la, mutex, pe+".Peer."+f, exc, len(writesOnly) > 0 && writesOnly[0])
			}
		}
		ctor := m("peer.newPeerBase", "constructor: the peer is not yet shared")
		flagExc := m("peer.newPeerBase", "constructor: the peer is not yet shared",
			"peer.NewOutboundPeer", "constructor: the peer is not yet shared",
			"(*peer.Peer).AssociateConnection", "runs once, before the negotiation goroutine and the handlers exist",
			"(*peer.Peer).localVersionMsg", "negotiation goroutine, before start() launches the handlers; the fields read are written only by that goroutine or before it",
			"(*peer.Peer).readRemoteVersionMsg", "negotiation goroutine, before start() launches the handlers; reads its own earlier writes")
		grp("flagsMtx", []string{"na", "id", "userAgent", "services", "versionKnown", "advertisedProtoVer", "protocolVersion", "sendHeadersPreferred", "verAckReceived", "witnessEnabled", "sendAddrV2"}, flagExc, nil)
		grp("statsMtx", []string{"timeOffset", "timeConnected", "startingHeight", "lastBlock", "lastAnnouncedBlock", "lastPingNonce", "lastPingTime", "lastPingMicros"}, ctor, nil)
		grp("prevGetBlocksMtx", []string{"prevGetBlocksBegin", "prevGetBlocksStop"}, ctor, nil)
		grp("prevGetHdrsMtx", []string{"prevGetHdrsBegin", "prevGetHdrsStop"}, ctor, nil)
		// conn is written once under connMtx and published by the atomic `connected` flag; reads are not under the mutex by design
		grp("connMtx", []string{"conn"}, ctor, nil, true)
		ruleWriters(p, r, pe+".Peer.conn", m("(*peer.Peer).AssociateConnection", "the only assignment, under connMtx, before connected is set"))
	})
}
