package main

import (
	"fmt"
	"go/token"
	"go/types"
	"sort"
	"strings"

	"golang.org/x/tools/go/ssa"
)

// lockAnalysis computes, for one mutex field (identified by its types.Var, i.e.
// per struct type, not per instance), the lock state that is certainly held
// at every instruction of every function of the owning packages:
// 0 = not held, 1 = held for reading, 2 = held for writing.
// "MUST be called with the lock held" helpers get their entry state from their
// callers: the minimum over all static call sites (fixpoint). Exported
// functions, address-taken functions and `go` targets start at 0.
type lockAnalysis struct {
	p      *Program
	mu     *types.Var
	funcs  map[*ssa.Function]bool
	entry  map[*ssa.Function]int
	fixed  map[*ssa.Function]bool // entry pinned to 0
	at     map[ssa.Instruction]int
	why    map[*ssa.Function]string // witness of the minimal caller
	assume map[string]int          // funcName -> assumed entry state (documented exceptions)
	// ignoreCallers: call sites inside these functions do not count when computing a callee's
	// entry state (constructors working on an unshared object, callers protected by another lock).
	ignoreCallers map[string]string
}

func lockOp(in ssa.Instruction, mu *types.Var) (op string, ok bool) {
	var cc *ssa.CallCommon
	switch x := in.(type) {
	case *ssa.Call:
		cc = x.Common()
	default:
		return "", false
	}
	f := cc.StaticCallee()
	if f == nil || len(cc.Args) == 0 {
		return "", false
	}
	name := f.String()
	var o string
	switch name {
	case "(*sync.RWMutex).Lock", "(*sync.Mutex).Lock":
		o = "Lock"
	case "(*sync.RWMutex).RLock":
		o = "RLock"
	case "(*sync.RWMutex).Unlock", "(*sync.Mutex).Unlock":
		o = "Unlock"
	case "(*sync.RWMutex).RUnlock":
		o = "RUnlock"
	default:
		return "", false
	}
	fa, ok2 := cc.Args[0].(*ssa.FieldAddr)
	if !ok2 || fieldVarOf(fa) != mu {
		return "", false
	}
	return o, true
}

func newLockAnalysis(p *Program, mu *types.Var, pkgPrefixes []string, assume map[string]int) *lockAnalysis {
	return newLockAnalysisX(p, mu, pkgPrefixes, assume, nil)
}

func newLockAnalysisX(p *Program, mu *types.Var, pkgPrefixes []string, assume map[string]int, ignoreCallers map[string]string) *lockAnalysis {
	la := &lockAnalysis{p: p, mu: mu, ignoreCallers: ignoreCallers, funcs: map[*ssa.Function]bool{}, entry: map[*ssa.Function]int{}, fixed: map[*ssa.Function]bool{},
		at: map[ssa.Instruction]int{}, why: map[*ssa.Function]string{}, assume: assume}
	for fn := range allFuncs(p) {
		if fn.Blocks == nil || fn.Pkg == nil {
			continue
		}
		for _, pre := range pkgPrefixes {
			if fn.Pkg.Pkg.Path() == pre {
				la.funcs[fn] = true
			}
		}
	}
	// pin: exported, address-taken, go targets
	for fn := range la.funcs {
		la.entry[fn] = 2
		if fn.Parent() == nil && (fn.Object() == nil || fn.Object().Exported()) {
			la.pin(fn, "exported entry point")
		}
		if fn.Synthetic != "" {
			la.pin(fn, "synthetic")
		}
	}
	for fn := range allFuncs(p) {
		if fn.Blocks == nil {
			continue
		}
		for _, b := range fn.Blocks {
			for _, in := range b.Instrs {
				if g, ok := in.(*ssa.Go); ok {
					if t := g.Common().StaticCallee(); t != nil && la.funcs[t] {
						la.pin(t, "go target at "+p.pos(g.Pos()))
					}
					if mc, ok := g.Common().Value.(*ssa.MakeClosure); ok {
						la.pin(mc.Fn.(*ssa.Function), "go closure")
					}
				}
				if d, ok := in.(*ssa.Defer); ok {
					if mc, ok := d.Common().Value.(*ssa.MakeClosure); ok {
						la.pin(mc.Fn.(*ssa.Function), "deferred closure")
					}
					if t := d.Common().StaticCallee(); t != nil && la.funcs[t] {
						la.pin(t, "deferred call")
					}
				}
				// function used as a value (not in call position)
				var ops []*ssa.Value
				ops = in.Operands(ops)
				for i, op := range ops {
					if *op == nil {
						continue
					}
					if f, ok := (*op).(*ssa.Function); ok && la.funcs[f] {
						if ci, ok := in.(ssa.CallInstruction); ok && i == 0 && ci.Common().Value == ssa.Value(f) {
							continue
						}
						la.pin(f, "used as a value at "+p.pos(in.Pos()))
					}
				}
			}
		}
	}
	for fn := range la.funcs {
		if st, ok := assume[funcName(fn)]; ok {
			la.entry[fn] = st
			la.fixed[fn] = true
			la.why[fn] = "assumed (listed exception)"
		}
	}
	// functions with no static caller at all start at 0
	called := map[*ssa.Function]bool{}
	for fn := range allFuncs(p) {
		if fn.Blocks == nil {
			continue
		}
		for _, b := range fn.Blocks {
			for _, in := range b.Instrs {
				if ci, ok := in.(ssa.CallInstruction); ok {
					if t := ci.Common().StaticCallee(); t != nil {
						called[t] = true
					}
					if mc, ok := ci.Common().Value.(*ssa.MakeClosure); ok {
						called[mc.Fn.(*ssa.Function)] = true
					}
				}
				if mc, ok := in.(*ssa.MakeClosure); ok {
					called[mc.Fn.(*ssa.Function)] = true
				}
			}
		}
	}
	for fn := range la.funcs {
		if !called[fn] && !la.fixed[fn] {
			la.pin(fn, "no static caller")
		}
	}
	la.solve()
	return la
}

func (la *lockAnalysis) pin(fn *ssa.Function, why string) {
	if la.fixed[fn] {
		return
	}
	la.entry[fn] = 0
	la.fixed[fn] = true
	la.why[fn] = why
}

func minInt(a, b int) int {
	if a < b {
		return a
	}
	return b
}

func (la *lockAnalysis) solve() {
	fns := make([]*ssa.Function, 0, len(la.funcs))
	for fn := range la.funcs {
		fns = append(fns, fn)
	}
	sort.Slice(fns, func(i, j int) bool { return fns[i].String() < fns[j].String() })
	for iter := 0; iter < 50; iter++ {
		cand := map[*ssa.Function]int{}
		candWhy := map[*ssa.Function]string{}
		for _, fn := range fns {
			la.flow(fn, func(callee *ssa.Function, st int, at ssa.Instruction) {
				if !la.funcs[callee] || la.fixed[callee] {
					return
				}
				if _, skip := la.ignoreCallers[funcName(fn)]; skip {
					return
				}
				if c, ok := cand[callee]; !ok || st < c {
					cand[callee] = st
					candWhy[callee] = fmt.Sprintf("called from %s at %s with state %d", funcName(fn), la.p.pos(at.Pos()), st)
				}
			})
		}
		changed := false
		for _, fn := range fns {
			if la.fixed[fn] {
				continue
			}
			c, ok := cand[fn]
			if !ok {
				c = 0
			}
			if c != la.entry[fn] {
				if c < la.entry[fn] {
					la.entry[fn] = c
					la.why[fn] = candWhy[fn]
					changed = true
				}
			}
		}
		if !changed {
			break
		}
	}
	// final pass records the per-instruction states
	for _, fn := range fns {
		la.flow(fn, nil)
	}
}

// flow runs the intra-procedural forward must-analysis for fn.
func (la *lockAnalysis) flow(fn *ssa.Function, onCall func(callee *ssa.Function, st int, at ssa.Instruction)) {
	in := map[*ssa.BasicBlock]int{}
	for _, b := range fn.Blocks {
		in[b] = 3 // top (unvisited)
	}
	in[fn.Blocks[0]] = la.entry[fn]
	work := []*ssa.BasicBlock{fn.Blocks[0]}
	out := map[*ssa.BasicBlock]int{}
	step := func(b *ssa.BasicBlock, record bool) int {
		st := in[b]
		for _, ins := range b.Instrs {
			if record {
				la.at[ins] = st
			}
			if op, ok := lockOp(ins, la.mu); ok {
				switch op {
				case "Lock":
					st = 2
				case "RLock":
					st = 1
				case "Unlock", "RUnlock":
					st = 0
				}
				continue
			}
			if record && onCall != nil {
				switch x := ins.(type) {
				case *ssa.Call:
					if t := x.Common().StaticCallee(); t != nil {
						onCall(t, st, ins)
					}
					if mc, ok := x.Common().Value.(*ssa.MakeClosure); ok {
						onCall(mc.Fn.(*ssa.Function), st, ins)
					}
					// closures passed as arguments are assumed to run synchronously in the callee
					for _, a := range x.Common().Args {
						if mc, ok := a.(*ssa.MakeClosure); ok {
							onCall(mc.Fn.(*ssa.Function), st, ins)
						}
					}
				case *ssa.MakeClosure:
					// closure stored in a variable and called later in the same function: state at creation
					// is only used if no call-position use is seen; handled by call-site propagation below
					_ = x
				}
			}
		}
		return st
	}
	for len(work) > 0 {
		b := work[len(work)-1]
		work = work[:len(work)-1]
		o := step(b, false)
		if prev, ok := out[b]; ok && prev == o {
			continue
		}
		out[b] = o
		for _, s := range b.Succs {
			n := minInt(in[s], o)
			if in[s] == 3 {
				n = o
			}
			if n != in[s] {
				in[s] = n
				work = append(work, s)
			} else if _, seen := out[s]; !seen {
				work = append(work, s)
			}
		}
	}
	for _, b := range fn.Blocks {
		if in[b] == 3 {
			in[b] = 0 // unreachable
		}
		step(b, true)
	}
}

// ruleGuarded checks that every access of the field happens with the mutex held
// (reads: R or W, writes: W).
func ruleGuarded(p *Program, r *Report, la *lockAnalysis, muName, fieldSpec string, exceptFns map[string]string) {
	ruleGuardedX(p, r, la, muName, fieldSpec, exceptFns, false)
}

// ruleGuardedX with writesOnly: only writes must hold the mutex (write-once fields that are
// published through another synchronisation point and then only read).
func ruleGuardedX(p *Program, r *Report, la *lockAnalysis, muName, fieldSpec string, exceptFns map[string]string, writesOnly bool) {
	fv := p.fieldOf(fieldSpec)
	if fv == nil {
		r.fail("anchor", fieldSpec, "", "field cannot be resolved")
		return
	}
	sf := short(fieldSpec)
	type key struct {
		fn    string
		write bool
	}
	agg := map[key][]fieldAccess{}
	for _, a := range p.progFor(fv.Pkg().Path()).fieldAccesses(fv) {
		if strings.HasPrefix(a.how, "sync:") {
			continue
		}
		agg[key{funcName(a.fn), a.write}] = append(agg[key{funcName(a.fn), a.write}], a)
	}
	var keys []key
	for k := range agg {
		keys = append(keys, k)
	}
	sort.Slice(keys, func(i, j int) bool {
		if keys[i].fn != keys[j].fn {
			return keys[i].fn < keys[j].fn
		}
		return !keys[i].write
	})
	for _, k := range keys {
		mode, need := "read", 1
		if k.write {
			mode, need = "write", 2
		} else if writesOnly {
			continue
		}
		cons := fmt.Sprintf("%s %s in %s under %s", mode, sf, k.fn, muName)
		if why, ok := exceptFns[k.fn]; ok {
			o := r.add("guarded", cons, p.pos(agg[k][0].pos), true, "listed exception: "+why)
			o.Trivial = true
			continue
		}
		bad := ""
		for _, a := range agg[k] {
			st, seen := la.at[a.ins]
			if !seen {
				st = 0
			}
			if st < need {
				fnWhy := ""
				if a.fn != nil {
					if w := la.why[a.fn]; w != "" {
						fnWhy = "; entry state of " + funcName(a.fn) + " = " + fmt.Sprint(la.entry[a.fn]) + " (" + w + ")"
					}
				}
				bad = fmt.Sprintf("%s (%s) at %s with lock state %d, needs %d%s", mode, a.how, p.pos(a.pos), st, need, fnWhy)
				break
			}
		}
		if bad != "" {
			r.fail("guarded", cons, p.pos(agg[k][0].pos), bad)
		} else {
			r.pass("guarded", cons, p.pos(agg[k][0].pos), fmt.Sprintf("%d access(es)", len(agg[k])))
		}
	}
	if len(keys) == 0 {
		r.fail("guarded", sf, "", "no access of the field found (anchor lost)")
	}
}

// ruleWriters: the set of functions that write the field is a subset of allowed.
func ruleWriters(p *Program, r *Report, fieldSpec string, allowed map[string]string) {
	fv := p.fieldOf(fieldSpec)
	if fv == nil {
		r.fail("anchor", fieldSpec, "", "field cannot be resolved")
		return
	}
	sf := short(fieldSpec)
	seen := map[string]fieldAccess{}
	for _, a := range p.progFor(fv.Pkg().Path()).fieldAccesses(fv) {
		if a.write {
			for _, o := range p.progFor(fv.Pkg().Path()).attribute(a.fn, 0) {
				if _, ok := seen[funcName(o)]; !ok {
					seen[funcName(o)] = a
				}
			}
		}
	}
	var fns []string
	for f := range seen {
		fns = append(fns, f)
	}
	sort.Strings(fns)
	for _, f := range fns {
		a := seen[f]
		cons := "writers(" + sf + ") ∋ " + f
		if why, ok := allowed[f]; ok {
			r.pass("writers", cons, p.pos(a.pos), why)
		} else {
			r.fail("writers", cons, p.pos(a.pos), fmt.Sprintf("%s (%s) writes the field but is not one of its owners", f, a.how))
		}
	}
	for f := range allowed {
		if _, ok := seen[f]; !ok && !strings.HasPrefix(allowed[f], "?") {
			r.fail("writers", "writers("+sf+") ∌ "+f, "", "listed owner no longer writes the field (table out of date or update dropped)")
		}
	}
}

// ruleCallers: every static call (and every use as a value) of the function is in an allowed caller.
func ruleCallers(p *Program, r *Report, callee string, allowed map[string]string) {
	target := p.Func(callee)
	if target == nil {
		r.fail("anchor", callee, "", "function cannot be resolved")
		return
	}
	pp := p.progFor(target.Pkg.Pkg.Path())
	sc := short(callee)
	seen := map[string]token.Pos{}
	for fn := range allFuncs(pp) {
		if fn.Blocks == nil {
			continue
		}
		for _, b := range fn.Blocks {
			for _, in := range b.Instrs {
				var ops []*ssa.Value
				ops = in.Operands(ops)
				for _, op := range ops {
					if *op == ssa.Value(target) {
						for _, o := range pp.attribute(fn, 0) {
							if _, ok := seen[funcName(o)]; !ok {
								seen[funcName(o)] = in.Pos()
							}
						}
					}
				}
			}
		}
	}
	var fns []string
	for f := range seen {
		fns = append(fns, f)
	}
	sort.Strings(fns)
	for _, f := range fns {
		cons := "callers(" + sc + ") ∋ " + f
		if why, ok := allowed[f]; ok {
			r.pass("callers", cons, p.pos(seen[f]), why)
		} else {
			r.fail("callers", cons, p.pos(seen[f]), f+" calls/references the function but is not a permitted caller")
		}
	}
	if len(fns) == 0 {
		r.fail("callers", "callers("+sc+")", "", "no caller found (anchor lost)")
	}
}

// ruleAtomicOnly: every access of the field is the operand of a sync/atomic call.
func ruleAtomicOnly(p *Program, r *Report, fieldSpec string, exceptFns map[string]string) {
	fv := p.fieldOf(fieldSpec)
	if fv == nil {
		r.fail("anchor", fieldSpec, "", "field cannot be resolved")
		return
	}
	sf := short(fieldSpec)
	n := 0
	bad := map[string]fieldAccess{}
	for _, a := range p.progFor(fv.Pkg().Path()).fieldAccesses(fv) {
		n++
		if strings.HasPrefix(a.how, "atomic-") {
			continue
		}
		if _, ok := exceptFns[funcName(a.fn)]; ok {
			continue
		}
		if _, ok := bad[funcName(a.fn)]; !ok {
			bad[funcName(a.fn)] = a
		}
	}
	if n == 0 {
		r.fail("atomic-only", sf, "", "no access found (anchor lost)")
		return
	}
	if len(bad) == 0 {
		r.pass("atomic-only", sf, "", fmt.Sprintf("%d accesses, all through sync/atomic", n))
		return
	}
	var fns []string
	for f := range bad {
		fns = append(fns, f)
	}
	sort.Strings(fns)
	for _, f := range fns {
		a := bad[f]
		r.fail("atomic-only", sf+" in "+f, p.pos(a.pos), "plain "+a.how+" of a field that is otherwise accessed atomically")
	}
}

// ruleEntryLocked: the function is only ever entered with the mutex held in (at least) the given mode.
func ruleEntryLocked(p *Program, r *Report, la *lockAnalysis, muName, fname string, need int) {
	fn := p.Func(fname)
	if fn == nil {
		r.fail("anchor", fname, "", "function cannot be resolved")
		return
	}
	cons := fmt.Sprintf("entry(%s) holds %s mode>=%d", short(fname), muName, need)
	st, ok := la.entry[fn]
	if !ok {
		r.fail("entry-locked", cons, p.pos(fn.Pos()), "function is outside the analysed packages")
		return
	}
	if st >= need {
		r.pass("entry-locked", cons, p.pos(fn.Pos()), la.why[fn])
	} else {
		r.fail("entry-locked", cons, p.pos(fn.Pos()), fmt.Sprintf("entered with lock state %d: %s", st, la.why[fn]))
	}
}

// ruleGoOnlyIn: `go f(...)` for the given target occurs only inside the allowed functions.
func ruleGoOnlyIn(p *Program, r *Report, target string, allowed map[string]string) {
	t := p.Func(target)
	if t == nil {
		r.fail("anchor", target, "", "function cannot be resolved")
		return
	}
	n := 0
	for fn := range allFuncs(p.progFor(t.Pkg.Pkg.Path())) {
		if fn.Blocks == nil {
			continue
		}
		for _, b := range fn.Blocks {
			for _, in := range b.Instrs {
				g, ok := in.(*ssa.Go)
				if !ok || g.Common().StaticCallee() != t {
					continue
				}
				n++
				cons := "go " + short(target) + " in " + funcName(fn)
				if why, ok := allowed[funcName(fn)]; ok {
					r.pass("go-site", cons, p.pos(g.Pos()), why)
				} else {
					r.fail("go-site", cons, p.pos(g.Pos()), "goroutine started outside the permitted function")
				}
			}
		}
	}
	if n == 0 {
		r.fail("go-site", "go "+short(target), "", "no go statement found (anchor lost)")
	}
}

// ruleCloseSites: close(<struct>.<field>) occurs exactly in the allowed functions.
func ruleCloseSites(p *Program, r *Report, fieldSpec string, allowed map[string]string) {
	fv := p.fieldOf(fieldSpec)
	if fv == nil {
		r.fail("anchor", fieldSpec, "", "field cannot be resolved")
		return
	}
	sf := short(fieldSpec)
	seen := map[string]int{}
	for fn := range allFuncs(p.progFor(fv.Pkg().Path())) {
		if fn.Blocks == nil {
			continue
		}
		for _, b := range fn.Blocks {
			for _, in := range b.Instrs {
				var cc *ssa.CallCommon
				switch x := in.(type) {
				case *ssa.Call:
					cc = x.Common()
				case *ssa.Defer:
					cc = x.Common()
				default:
					continue
				}
				bi, ok := cc.Value.(*ssa.Builtin)
				if !ok || bi.Name() != "close" {
					continue
				}
				ld, ok := cc.Args[0].(*ssa.UnOp)
				if !ok {
					continue
				}
				fa, ok := ld.X.(*ssa.FieldAddr)
				if !ok || fieldVarOf(fa) != fv {
					continue
				}
				seen[funcName(fn)]++
				cons := "close(" + sf + ") in " + funcName(fn)
				if why, ok := allowed[funcName(fn)]; ok {
					r.pass("close-site", cons, p.pos(in.Pos()), why)
				} else {
					r.fail("close-site", cons, p.pos(in.Pos()), "channel closed outside its single owner")
				}
			}
		}
	}
	for f := range allowed {
		if seen[f] == 0 {
			r.fail("close-site", "close("+sf+") in "+f, "", "the owner no longer closes the channel")
		}
	}
}

// ruleCallUnderLock: every call of callee inside fn happens with the mutex held (at least `need`).
func ruleCallUnderLock(p *Program, r *Report, la *lockAnalysis, muName, fname, calleeSubstr string, need int, why string) {
	fn := p.Func(fname)
	if fn == nil {
		r.fail("anchor", fname, "", "function cannot be resolved")
		return
	}
	c := newCanon(p, fn)
	n := 0
	for _, b := range fn.Blocks {
		for _, in := range b.Instrs {
			call, ok := in.(*ssa.Call)
			if !ok || !strings.Contains(c.calleeName(call.Common()), calleeSubstr) {
				continue
			}
			n++
			cons := fmt.Sprintf("%s calls %s under %s", short(fname), calleeSubstr, muName)
			if la.at[in] >= need {
				r.pass("call-under-lock", cons, p.pos(call.Pos()), why)
			} else {
				r.fail("call-under-lock", cons, p.pos(call.Pos()), fmt.Sprintf("called with lock state %d, needs %d: %s", la.at[in], need, why))
			}
		}
	}
	if n == 0 {
		r.fail("call-under-lock", short(fname)+" calls "+calleeSubstr, p.pos(fn.Pos()), "call not found (anchor lost)")
	}
}
