package main

import (
	"fmt"

	"os"
	"path/filepath"
	"sort"
	"strings"
)

// A guards file freezes, per function, the rejection profile that was reviewed
// against the protocol:
//
//	func <pkg>.<Func> reject=<mode> params=<a,b>
//	  guard <atom> && <atom> => <code>      # ref
//	  avoid-ok <key>                         # a guard that may legitimately be skipped, with reason
type guardSpec struct {
	fn      string
	mode    rejectMode
	params  []string
	guards  []string // keys
	exits   []string
	effects []string // "event when atoms"
	orders  [][2]string
	musts   []mustRule
	noev    []string
	protos  [][2]string // substring, reference
	notafter [][2]string
	refs    map[string]string
	open    bool // open world: extra guards in the function are not reported
	modeSet bool
	avoidOK map[string]bool
	line    int
}

type mustRule struct {
	sel    string
	unless []string
}

func parseGuardsFile(path string) ([]*guardSpec, error) {
	b, err := os.ReadFile(path)
	if err != nil {
		return nil, err
	}
	var out []*guardSpec
	var cur *guardSpec
	for i, ln := range strings.Split(string(b), "\n") {
		ref := ""
		if j := strings.Index(ln, "    # "); j >= 0 {
			ref = strings.TrimSpace(ln[j+6:])
			ln = ln[:j]
		}
		t := strings.TrimSpace(ln)
		if t == "" || strings.HasPrefix(t, "#") {
			continue
		}
		switch {
		case strings.HasPrefix(t, "func "):
			fs := strings.Fields(t)
			cur = &guardSpec{fn: fs[1], refs: map[string]string{}, avoidOK: map[string]bool{}, line: i + 1}
			for _, f := range fs[2:] {
				switch {
				case strings.HasPrefix(f, "reject="):
					m, ok := parseRejectMode(f[7:])
					if !ok {
						return nil, fmt.Errorf("%s:%d: bad reject mode", path, i+1)
					}
					cur.mode = m
					cur.modeSet = true
				case strings.HasPrefix(f, "params="):
					if f[7:] != "" {
						cur.params = strings.Split(f[7:], ",")
					}
				case f == "open":
					cur.open = true
				}
			}
			out = append(out, cur)
		case strings.HasPrefix(t, "guard "):
			if cur == nil {
				return nil, fmt.Errorf("%s:%d: guard outside func", path, i+1)
			}
			k := strings.TrimSpace(t[6:])
			cur.guards = append(cur.guards, k)
			cur.refs[k] = ref
		case strings.HasPrefix(t, "exit "):
			if cur == nil {
				return nil, fmt.Errorf("%s:%d: exit outside func", path, i+1)
			}
			cur.exits = append(cur.exits, strings.TrimSpace(t[5:]))
		case strings.HasPrefix(t, "effect "):
			cur.effects = append(cur.effects, strings.TrimSpace(t[7:]))
		case strings.HasPrefix(t, "order "):
			ab := strings.SplitN(t[6:], " < ", 2)
			if len(ab) != 2 {
				return nil, fmt.Errorf("%s:%d: order needs A < B", path, i+1)
			}
			cur.orders = append(cur.orders, [2]string{strings.TrimSpace(ab[0]), strings.TrimSpace(ab[1])})
		case strings.HasPrefix(t, "notafter "):
			ab := strings.SplitN(t[9:], " AFTER ", 2)
			if len(ab) != 2 {
				return nil, fmt.Errorf("%s:%d: notafter needs 'A AFTER B'", path, i+1)
			}
			cur.notafter = append(cur.notafter, [2]string{strings.TrimSpace(ab[0]), strings.TrimSpace(ab[1])})
		case strings.HasPrefix(t, "mustpass "):
			m := mustRule{}
			rest := t[9:]
			if j := strings.Index(rest, " unless "); j >= 0 {
				for _, u := range strings.Split(rest[j+8:], " ; ") {
					m.unless = append(m.unless, strings.TrimSpace(u))
				}
				rest = rest[:j]
			}
			m.sel = strings.TrimSpace(rest)
			cur.musts = append(cur.musts, m)
		case strings.HasPrefix(t, "proto "):
			cur.protos = append(cur.protos, [2]string{strings.TrimSpace(t[6:]), ref})
		case strings.HasPrefix(t, "noevent "):
			cur.noev = append(cur.noev, strings.TrimSpace(t[8:]))
		case strings.HasPrefix(t, "avoid-ok "):
			cur.avoidOK[strings.TrimSpace(t[9:])] = true
		default:
			return nil, fmt.Errorf("%s:%d: cannot parse %q", path, i+1, t)
		}
	}
	return out, nil
}

func renameParams(key string, from, to []string) string {
	if len(from) != len(to) {
		return key
	}
	same := true
	for i := range from {
		if from[i] != to[i] {
			same = false
		}
	}
	if same {
		return key
	}
	// two-step to avoid clashes
	for i := range from {
		key = strings.ReplaceAll(key, "‹"+from[i]+"›", fmt.Sprintf("‹\x00%d›", i))
	}
	for i := range to {
		key = strings.ReplaceAll(key, fmt.Sprintf("‹\x00%d›", i), "‹"+to[i]+"›")
	}
	return key
}

// checkGuardsFile evaluates E1 for every function of a guards file.
func checkGuardsFile(p *Program, r *Report, file string) {
	specs, err := parseGuardsFile(filepath.Join(verifDir(), "rules", file))
	if err != nil {
		r.fail("guards-file", file, "", err.Error())
		return
	}
	for _, sp := range specs {
		fn := p.Func(sp.fn)
		if fn == nil {
			r.fail("anchor", sp.fn, "", "function named in "+file+" cannot be resolved in the program")
			continue
		}
		r.Analysed["functions"]++
		pp := p.progFor(fn.Pkg.Pkg.Path())
		if !sp.modeSet {
			sp.mode = defaultRejectMode(fn)
		}
		f := pp.facts(fn, sp.mode)
		cur := strings.Split(paramList(fn), ",")
		if paramList(fn) == "" {
			cur = nil
		}
		have := map[string][]*Guard{}
		gs := f.Guards()
		for _, g := range gs {
			k := renameParams(g.Key(), cur, sp.params)
			have[k] = append(have[k], g)
		}
		want := map[string]int{}
		for _, k := range sp.guards {
			want[k]++
		}
		sfn := short(sp.fn)
		var keys []string
		for k := range want {
			keys = append(keys, k)
		}
		sort.Strings(keys)
		for _, k := range keys {
			n := want[k]
			got := have[k]
			cons := sfn + " :: " + k
			if len(got) < n {
				near := nearest(k, have, want)
				r.fail("guard/present", cons, p.pos(fn.Pos()), fmt.Sprintf("expected rejecting guard not found (%d of %d)%s; nearest unmatched guard in the function: %s", len(got), n, refStr(sp.refs[k]), near))
				continue
			}
			r.pass("guard/present", cons, p.pos(got[0].Pos), sp.refs[k])
			if ps := p.Fset.Position(got[0].Pos); ps.IsValid() && !strings.Contains(k, "=> panic") {
				r.mutantGuards = append(r.mutantGuards, mutTarget{file: ps.Filename, pos: ps.Offset, fn: sfn, key: k})
			}
			for _, g := range got {
				if g.Avoid != "" && !sp.avoidOK[k] {
					r.fail("guard/unavoidable", cons, p.pos(g.Pos), g.Avoid)
				} else {
					r.pass("guard/unavoidable", cons, p.pos(g.Pos), "")
				}
			}
		}
		// accepting exits: closed world too (a new early "return nil" is a new way to accept)
		if len(sp.exits) > 0 {
			haveX := map[string]int{}
			var xpos = map[string]string{}
			for _, a := range f.Accepts() {
				k := renameParams(a.Key(), cur, sp.params)
				haveX[k]++
				xpos[k] = p.pos(a.Pos)
			}
			wantX := map[string]int{}
			for _, k := range sp.exits {
				wantX[k]++
			}
			okAll := true
			var ks []string
			for k := range haveX {
				ks = append(ks, k)
			}
			sort.Strings(ks)
			for _, k := range ks {
				if haveX[k] > wantX[k] {
					okAll = false
					r.fail("exit/closed-world", sfn+" :: "+k, xpos[k], "accepting exit not in the reviewed table (a new way for the function to succeed)")
				}
			}
			ks = ks[:0]
			for k := range wantX {
				ks = append(ks, k)
			}
			sort.Strings(ks)
			for _, k := range ks {
				if haveX[k] < wantX[k] {
					okAll = false
					r.fail("exit/present", sfn+" :: "+k, p.pos(fn.Pos()), "accepting exit of the reviewed table no longer exists under these conditions")
				}
			}
			if okAll {
				r.pass("exit/closed-world", sfn, p.pos(fn.Pos()), fmt.Sprintf("%d accepting exits, all in table", len(sp.exits)))
			}
		}
		checkEffects(p, r, f, sp, sfn, cur)
		if !sp.open {
			var extra []string
			for k, got := range have {
				if len(got) > want[k] {
					extra = append(extra, k)
				}
			}
			sort.Strings(extra)
			for _, k := range extra {
				g := have[k][len(have[k])-1]
				r.fail("guard/closed-world", sfn+" :: "+k, p.pos(g.Pos), "rejection not in the reviewed rule table (an added or altered rule)")
			}
			if len(extra) == 0 {
				r.pass("guard/closed-world", sfn, p.pos(fn.Pos()), fmt.Sprintf("%d guards, all in table", len(gs)))
			}
		}
	}
}

func refStr(s string) string {
	if s == "" {
		return ""
	}
	return " [" + s + "]"
}

func nearest(k string, have map[string][]*Guard, want map[string]int) string {
	best, bestD := "(none)", 1<<30
	for h, gs := range have {
		if len(gs) <= want[h] {
			continue
		}
		d := editDistance(k, h)
		if d < bestD {
			best, bestD = h, d
		}
	}
	return best
}

func editDistance(a, b string) int {
	ra, rb := []rune(a), []rune(b)
	if len(ra) > 400 {
		ra = ra[:400]
	}
	if len(rb) > 400 {
		rb = rb[:400]
	}
	prev := make([]int, len(rb)+1)
	for j := range prev {
		prev[j] = j
	}
	for i := 1; i <= len(ra); i++ {
		cur := make([]int, len(rb)+1)
		cur[0] = i
		for j := 1; j <= len(rb); j++ {
			c := prev[j-1]
			if ra[i-1] != rb[j-1] {
				c++
			}
			if prev[j]+1 < c {
				c = prev[j] + 1
			}
			if cur[j-1]+1 < c {
				c = cur[j-1] + 1
			}
			cur[j] = c
		}
		prev = cur
	}
	return prev[len(rb)]
}

// effectKey: the effect, the branch conditions under which it happens, and the rejecting guards
// that have been passed before it (so that a check moved behind the action it protects shows).
func effectKey(f *FuncFacts, e *Event) string {
	if e.Kind == "release" {
		return e.Head()
	}
	k := e.Full() + " when " + strings.Join(f.eventContext(e), " && ")
	set := map[string]bool{}
	for ff, ev := f, e; ev != nil; ff, ev = ev.inl, ev.inner {
		for _, g := range ff.Guards() {
			if g.blk != ev.blk && g.blk.Dominates(ev.blk) && !g.noAfter {
				code := g.Code
				if len(code) > 60 {
					code = code[:60]
				}
				set[code] = true
			}
		}
	}
	if len(set) > 0 {
		var cs []string
		for c := range set {
			cs = append(cs, c)
		}
		sort.Strings(cs)
		k += " after {" + strings.Join(cs, ", ") + "}"
	}
	return k
}

func checkEffects(p *Program, r *Report, f *FuncFacts, sp *guardSpec, sfn string, cur []string) {
	fpos := p.pos(f.fn.Pos())
	if len(sp.effects) > 0 {
		heads := map[string]bool{}
		want := map[string]int{}
		for _, e := range sp.effects {
			want[e]++
			h := e
			if i := strings.Index(h, " when "); i >= 0 {
				h = h[:i]
			}
			if i := strings.Index(h, " <- ("); i >= 0 {
				h = h[:i]
			} else if i := strings.Index(h, " = "); i >= 0 {
				h = h[:i]
			}
			heads[h] = true
		}
		have := map[string]int{}
		pos := map[string]string{}
		for _, e := range f.Events() {
			if !heads[e.Head()] {
				continue
			}
			k := renameParams(effectKey(f, e), cur, sp.params)
			have[k]++
			pos[k] = p.pos(e.Pos)
			if e.Kind == "release" {
				have[k] = 1 // presence only
			}
		}
		for k := range want {
			if strings.HasPrefix(k, "release:") {
				want[k] = 1
			}
		}
		var ks []string
		for k := range want {
			ks = append(ks, k)
		}
		sort.Strings(ks)
		for _, k := range ks {
			if have[k] < want[k] {
				near := "(none)"
				bd := 1 << 30
				for h := range have {
					if have[h] > want[h] {
						if d := editDistance(k, h); d < bd {
							bd, near = d, h
						}
					}
				}
				r.fail("effect/present", sfn+" :: "+k, fpos, "expected effect (call/store with these operands under these conditions) not found; nearest unmatched: "+near)
			} else {
				r.pass("effect/present", sfn+" :: "+k, pos[k], "")
			}
		}
		ks = ks[:0]
		for k := range have {
			if have[k] > want[k] {
				ks = append(ks, k)
			}
		}
		sort.Strings(ks)
		for _, k := range ks {
			r.fail("effect/closed-world", sfn+" :: "+k, pos[k], "tracked effect occurs with operands/conditions that are not in the reviewed table")
		}
	}
	for _, o := range sp.orders {
		as, bs := f.matchEvents(renameParams(o[0], sp.params, cur)), f.matchEvents(renameParams(o[1], sp.params, cur))
		cons := sfn + " :: " + o[0] + " < " + o[1]
		if len(as) == 0 || len(bs) == 0 {
			r.fail("order", cons, fpos, fmt.Sprintf("anchor event missing in function (%d sites of A, %d sites of B)", len(as), len(bs)))
			continue
		}
		ok := true
		for _, b := range bs {
			dom := false
			for _, a := range as {
				if evDominates(a, b) {
					dom = true
				}
			}
			if !dom {
				ok = false
				r.fail("order", cons, p.pos(b.Pos), "this site of B can be reached without first executing A")
			}
		}
		if ok {
			r.pass("order", cons, p.pos(bs[0].Pos), fmt.Sprintf("%d site(s) of B all dominated by a site of A", len(bs)))
		}
	}
	for _, na := range sp.notafter {
		as, bs := f.matchEvents(renameParams(na[0], sp.params, cur)), f.matchEvents(renameParams(na[1], sp.params, cur))
		cons := sfn + " :: " + na[0] + " never after " + na[1]
		if len(as) == 0 || len(bs) == 0 {
			r.fail("notafter", cons, fpos, fmt.Sprintf("anchor event missing in function (%d sites of A, %d sites of B)", len(as), len(bs)))
			continue
		}
		bad := ""
		for _, b := range bs {
			for _, a := range as {
				if evCanFollow(a, b) {
					bad = fmt.Sprintf("%s can execute after %s", p.pos(a.Pos), p.pos(b.Pos))
				}
			}
		}
		if bad != "" {
			r.fail("notafter", cons, fpos, bad)
		} else {
			r.pass("notafter", cons, fpos, fmt.Sprintf("%d site(s) of A, none reachable from a site of B", len(as)))
		}
	}
	for _, m := range sp.musts {
		sel := renameParams(m.sel, sp.params, cur)
		evs := f.matchEvents(sel)
		cons := sfn + " :: mustpass " + m.sel
		if len(evs) == 0 {
			r.fail("mustpass", cons, fpos, "anchor event missing in function")
			continue
		}
		var unless []string
		for _, u := range m.unless {
			unless = append(unless, renameParams(u, sp.params, cur))
		}
		if why := f.mustPass(evs, unless); why != "" {
			r.fail("mustpass", cons, p.pos(evs[0].Pos), why)
		} else {
			r.pass("mustpass", cons, p.pos(evs[0].Pos), fmt.Sprintf("%d site(s); every non-failing return passes one", len(evs)))
		}
	}
	if len(sp.protos) > 0 {
		var keys []string
		for _, g := range f.Guards() {
			keys = append(keys, "guard "+renameParams(g.Key(), cur, sp.params))
		}
		seenX := map[string]bool{}
		for _, as := range [][]*Guard{f.AcceptsRaw(), f.Accepts()} {
			for _, a := range as {
				k := "exit " + renameParams(a.Key(), cur, sp.params)
				if !seenX[k] {
					seenX[k] = true
					keys = append(keys, k)
				}
			}
		}
		for _, e := range f.Events() {
			keys = append(keys, "effect "+renameParams(effectKey(f, e), cur, sp.params))
		}
		for _, pr := range sp.protos {
			// all " ;; "-separated fragments must occur in one key
			spec := pr[0]
			need := 1
			if strings.HasPrefix(spec, "x") {
				var n int
				if _, err := fmt.Sscanf(spec, "x%d ", &n); err == nil && n > 0 {
					need = n
					spec = spec[strings.Index(spec, " ")+1:]
				}
			}
			frags := strings.Split(spec, " ;; ")
			found := 0
			for _, k := range keys {
				ok := true
				for _, fr := range frags {
					if !strings.Contains(k, strings.TrimSpace(fr)) {
						ok = false
						break
					}
				}
				if ok {
					found++
				}
			}
			cons := sfn + " :: " + pr[0]
			if found < need {
				r.fail("proto", cons, fpos, fmt.Sprintf("protocol row matches %d guard/exit/effect(s) in the function, needs %d", found, need)+refStr(pr[1]))
			} else {
				r.pass("proto", cons, fpos, pr[1])
			}
		}
	}
	for _, n := range sp.noev {
		evs := f.matchEvents(renameParams(n, sp.params, cur))
		cons := sfn + " :: noevent " + n
		if len(evs) > 0 {
			r.fail("noevent", cons, p.pos(evs[0].Pos), "event must not occur in this function")
		} else {
			o := r.add("noevent", cons, fpos, true, "")
			_ = o
		}
	}
}
