package main

import (
	"crypto/sha1"
	"encoding/hex"
	"fmt"
	"go/constant"
	"go/token"
	"go/types"
	"math/big"
	"os"
	"sort"
	"strings"
	"sync"

	"golang.org/x/tools/go/ssa"
)

// Canon renders SSA values of one function as canonical terms. Two values get
// the same string iff they are built the same way from parameters, fields,
// constants (by value), resolved callees and operators; local names,
// conversions, operand order of commutative operators and source positions do
// not matter.
type Canon struct {
	inNeg bool
	p      *Program
	fn     *ssa.Function
	memo   map[ssa.Value]string
	stack  map[ssa.Value]bool
	locals map[*ssa.Alloc]string
	// virtual inlining (inline.go): parameter -> caller's term, callers being inlined into, cache
	env   map[*ssa.Parameter]string
	chain []*ssa.Function
	inl   map[*ssa.CallCommon]*FuncFacts
	// rotated counted loops (loops.go)
	rot     []*rotLoop
	rotDone bool
	owner   *FuncFacts // the facts this renderer belongs to (branch conditions for boolean values)
	// closures: the enclosing function's renderer and the MakeClosure that binds the free variables
	parentCanon *Canon
	parentMC    *ssa.MakeClosure
	parentDone  bool
}

// localName names an address-taken local by its type and ordinal among the
// function's locals of that type, so renaming a variable changes nothing.
func (c *Canon) localName(a *ssa.Alloc) string {
	if c.locals == nil {
		c.locals = map[*ssa.Alloc]string{}
		count := map[string]int{}
		fn := a.Parent()
		var allocs []*ssa.Alloc
		for _, b := range fn.Blocks {
			for _, in := range b.Instrs {
				if al, ok := in.(*ssa.Alloc); ok {
					switch al.Comment {
					case "complit", "varargs", "new", "makeslice", "slicelit", "":
						continue
					}
					allocs = append(allocs, al)
				}
			}
		}
		// ordinal in declaration order (source position), which does not depend on how the
		// surrounding control flow happens to be numbered
		sort.SliceStable(allocs, func(i, j int) bool { return allocs[i].Pos() < allocs[j].Pos() })
		for _, al := range allocs {
			t := short(al.Type().(*types.Pointer).Elem().String())
			count[t]++
			c.locals[al] = fmt.Sprintf("«%s#%d»", t, count[t])
		}
	}
	if n, ok := c.locals[a]; ok {
		return n
	}
	return a.Comment
}

const maxDepth = 48

func newCanon(p *Program, fn *ssa.Function) *Canon {
	return &Canon{p: p, fn: fn, memo: map[ssa.Value]string{}, stack: map[ssa.Value]bool{}}
}

func (c *Canon) term(v ssa.Value) string { return c.termD(v, 0) }

func (c *Canon) termD(v ssa.Value, d int) string {
	if v == nil {
		return "∅"
	}
	if s, ok := c.memo[v]; ok {
		return s
	}
	if c.stack[v] {
		return "↺"
	}
	if d > maxDepth {
		return "…⊥"
	}
	c.stack[v] = true
	s := c.render(v, d)
	delete(c.stack, v)
	if len(s) > 420 && os.Getenv("VERIF_NODIGEST") == "" {
		h := sha1.Sum([]byte(s))
		rs := []rune(s)
		if len(rs) > 200 {
			rs = rs[:200]
		}
		cyc := ""
		if strings.Contains(s, "↺") {
			cyc = "↺" // still depends on where the enclosing cycle was entered: never memoised
		}
		s = string(rs) + "…#" + hex.EncodeToString(h[:4]) + cyc
	}
	if !strings.Contains(s, "↺") && !strings.Contains(s, "…⊥") {
		c.memo[v] = s
	}
	return s
}

// constName maps a constant of a named type to the name of the declared
// constant with that value (ErrorCode, ScriptFlags, opcodes keep their plain
// numeric value unless the type is a defined non-basic type).
func (c *Canon) constStr(k *ssa.Const) string {
	if k.Value == nil {
		return "nil"
	}
	t := k.Type()
	if n, ok := t.(*types.Named); ok && n.Obj().Pkg() != nil {
		if name := lookupConstName(n, k.Value); name != "" {
			return name
		}
	}
	switch k.Value.Kind() {
	case constant.Int:
		return k.Value.ExactString()
	case constant.String:
		sv := constant.StringVal(k.Value)
		if strings.Count(sv, " ") >= 2 {
			return `"…"` // a message text, never part of a rule
		}
		return fmt.Sprintf("%q", sv)
	case constant.Bool:
		if constant.BoolVal(k.Value) {
			return "true"
		}
		return "false"
	}
	return k.Value.ExactString()
}

var constNameCache = map[*types.Named]map[string]string{}

func lookupConstName(n *types.Named, v constant.Value) string {
	m, ok := constNameCache[n]
	if !ok {
		m = map[string]string{}
		sc := n.Obj().Pkg().Scope()
		names := sc.Names()
		sort.Strings(names)
		for _, name := range names {
			if k, ok := sc.Lookup(name).(*types.Const); ok && types.Identical(k.Type(), n) {
				key := k.Val().ExactString()
				if _, dup := m[key]; !dup {
					m[key] = name
				}
			}
		}
		constNameCache[n] = m
	}
	// only error-code-like enumerations are rendered by name; flag/bit types
	// would be ambiguous for combined values, which simply miss the table.
	return m[v.ExactString()]
}

func fieldName(t types.Type, i int) string {
	t = t.Underlying()
	if p, ok := t.(*types.Pointer); ok {
		t = p.Elem().Underlying()
	}
	if s, ok := t.(*types.Struct); ok && i < s.NumFields() {
		return fieldDisplayName(s.Field(i))
	}
	return fmt.Sprintf("f%d", i)
}

func funcName(f *ssa.Function) string {
	if f == nil {
		return "?"
	}
	return short(reviewedName(f))
}

// reviewedName: f.String(), with the name a renamed function (or the parent of a closure) was
// reviewed under.
func reviewedName(f *ssa.Function) string {
	s := f.String()
	root := f
	for root.Parent() != nil {
		root = root.Parent()
	}
	if old, ok := renamedFrom[root]; ok {
		return old + strings.TrimPrefix(s, root.String())
	}
	return s
}

func commutative(op token.Token) bool {
	switch op {
	case token.ADD, token.MUL, token.AND, token.OR, token.XOR, token.EQL, token.NEQ:
		return true
	}
	return false
}

func (c *Canon) render(v ssa.Value, d int) string {
	switch v := v.(type) {
	case *ssa.Const:
		return c.constStr(v)
	case *ssa.Parameter:
		if s, ok := c.env[v]; ok {
			return s
		}
		return "‹" + v.Name() + "›"
	case *ssa.FreeVar:
		return "‹" + v.Name() + "›"
	case *ssa.Global:
		return short(v.Pkg.Pkg.Path()) + "." + v.Name()
	case *ssa.Function:
		return "func:" + funcName(v)
	case *ssa.Builtin:
		return v.Name()
	case *ssa.Alloc:
		// a local that is only stored to and loaded from (also by closures that merely read
		// it) stands for the value(s) stored into it: one store -> that value, several -> μ(set).
		if vals, strict, ok := c.allocStores(v); ok {
			if len(vals) == 1 {
				return "&{" + c.termD(vals[0], d+1) + "}"
			}
			if strict && len(vals) > 1 && len(vals) <= 6 {
				set := map[string]bool{}
				for _, x := range vals {
					set[c.termD(x, d+1)] = true
				}
				var xs []string
				for k := range set {
					xs = append(xs, k)
				}
				sort.Strings(xs)
				return "&μ(" + strings.Join(xs, "|") + ")"
			}
		}
		if lit, ok := c.compositeLit(v, d); ok {
			return lit
		}
		if v.Comment != "" {
			return "&" + c.localName(v)
		}
		return "&new(" + short(v.Type().String()) + ")"
	case *ssa.FieldAddr:
		return "&" + c.lval(v, d)
	case *ssa.IndexAddr:
		return "&" + c.lval(v, d)
	case *ssa.Field:
		return c.termD(v.X, d+1) + "." + fieldName(v.X.Type(), v.Field)
	case *ssa.Index:
		return c.termD(v.X, d+1) + "[" + c.termD(v.Index, d+1) + "]"
	case *ssa.Lookup:
		s := c.termD(v.X, d+1) + "[" + c.termD(v.Index, d+1) + "]"
		if v.CommaOk {
			s += "?"
		}
		return s
	case *ssa.UnOp:
		switch v.Op {
		case token.MUL:
			return c.derefTerm(v.X, d)
		case token.NOT:
			return "!" + c.termD(v.X, d+1)
		case token.ARROW:
			return "<-" + c.termD(v.X, d+1)
		default:
			return v.Op.String() + c.termD(v.X, d+1)
		}
	case *ssa.BinOp:
		if isCmp(v.Op) {
			a := c.cmpAtom(v, true, d)
			return "[" + a + "]"
		}
		if v.Op == token.ADD {
			// index variable of a range loop
			if ph, ok := v.X.(*ssa.Phi); ok && ph.Comment == "rangeindex" {
				if k, ok := intConst(v.Y); ok && k.IsInt64() && k.Int64() == 1 {
					return "‹i›"
				}
			}
		}
		if v.Op == token.ADD || v.Op == token.SUB {
			// constant offset of a shifted index: (k+‹i›)-c
			if cst, ok := intConst(v.Y); ok {
				if k, ok := inductionStart(stripConv(v.X)); ok {
					n := new(big.Int).Add(k, cst)
					if v.Op == token.SUB {
						n = new(big.Int).Sub(k, cst)
					}
					switch {
					case n.Sign() == 0:
						return "‹i›"
					case n.Sign() > 0:
						return "(" + n.String() + "+‹i›)"
					}
				}
			}
		}
		x, y := c.termD(v.X, d+1), c.termD(v.Y, d+1)
		if commutative(v.Op) && x > y {
			x, y = y, x
		}
		return "(" + x + v.Op.String() + y + ")"
	case *ssa.Convert:
		return c.termD(v.X, d)
	case *ssa.ChangeType:
		return c.termD(v.X, d)
	case *ssa.ChangeInterface:
		return c.termD(v.X, d)
	case *ssa.MakeInterface:
		return c.termD(v.X, d)
	case *ssa.SliceToArrayPointer:
		return c.termD(v.X, d)
	case *ssa.MultiConvert:
		return c.termD(v.X, d)
	case *ssa.Slice:
		if v.Low == nil && v.High == nil && v.Max == nil {
			if _, isSlice := v.X.Type().Underlying().(*types.Slice); isSlice {
				return c.termD(v.X, d) // s[:] of a slice is s
			}
		}
		s := c.termD(v.X, d+1) + "["
		if v.Low != nil {
			s += c.termD(v.Low, d+1)
		}
		s += ":"
		if v.High != nil {
			s += c.termD(v.High, d+1)
		}
		if v.Max != nil {
			s += ":" + c.termD(v.Max, d+1)
		}
		return s + "]"
	case *ssa.TypeAssert:
		s := c.termD(v.X, d+1) + ".(" + short(v.AssertedType.String()) + ")"
		if v.CommaOk {
			s += "?"
		}
		return s
	case *ssa.Extract:
		if call, ok := v.Tuple.(*ssa.Call); ok {
			if s, ok := c.inlinedResult(call, v.Index, d); ok {
				return s
			}
		}
		return c.termD(v.Tuple, d) + "#" + fmt.Sprint(v.Index)
	case *ssa.Call:
		if a, b, ok := hashIsEqual(v); ok {
			return "[" + c.hashEqAtom(a, b, true, d) + "]"
		}
		if c.inlined(v.Common()) != nil {
			if s, ok := c.boolTerm(v); ok {
				return s
			}
		}
		if v.Common().Signature().Results().Len() == 1 {
			if s, ok := c.inlinedResult(v, 0, d); ok {
				return s
			}
		}
		return c.call(v.Common(), d)
	case *ssa.Phi:
		if k, ok := inductionStart(v); ok {
			if k.Sign() == 0 {
				return "‹i›"
			}
			return "(" + k.String() + "+‹i›)"
		}
		carried, _ := c.rotExitPhi(v)
		if carried != nil && len(v.Edges) == 2 {
			return c.termD(carried, d)
		}
		if s, ok := c.boolTerm(v); ok {
			return s
		}
		if s, ok := c.selPhi(v, d); ok {
			return s
		}
		if s, ok := c.itePhi(v, d); ok {
			return s
		}
		set := map[string]bool{}
		seenPhi := map[*ssa.Phi]bool{v: true}
		var walk func(ph *ssa.Phi)
		walk = func(ph *ssa.Phi) {
			for i, e := range ph.Edges {
				if ph == v && carried != nil {
					// the pre-test and latch inputs together are the loop-carried value
					skip := false
					for _, rx := range c.rotExits(v) {
						if pr := ph.Block().Preds[i]; pr == rx.rl.pre {
							skip = true
						} else if pr == rx.rl.latch {
							e = rx.carried
						}
					}
					if skip {
						continue
					}
				}
				if p2, ok := e.(*ssa.Phi); ok {
					if p2 == v {
						set["↺="] = true // some path around the loop leaves the value unchanged
					}
					if p2 != v && !seenPhi[p2] {
						if s, ok := c.boolTerm(p2); ok {
							set[s] = true // a boolean combination keeps its conditions
							seenPhi[p2] = true
							continue
						}
					}
					if !seenPhi[p2] {
						seenPhi[p2] = true
						walk(p2)
					}
					continue
				}
				set[c.termD(e, d+1)] = true
			}
		}
		walk(v)
		var xs []string
		for s := range set {
			xs = append(xs, s)
		}
		sort.Strings(xs)
		return "φ(" + strings.Join(xs, "|") + ")"
	case *ssa.MakeClosure:
		return "closure:" + funcName(v.Fn.(*ssa.Function))
	case *ssa.MakeMap:
		return "make(" + short(v.Type().String()) + ")"
	case *ssa.MakeSlice:
		return "make(" + short(v.Type().String()) + "," + c.termD(v.Len, d+1) + ")"
	case *ssa.MakeChan:
		return "make(" + short(v.Type().String()) + "," + c.termD(v.Size, d+1) + ")"
	case *ssa.Range:
		return "range(" + c.termD(v.X, d+1) + ")"
	case *ssa.Next:
		return "next(" + c.termD(v.Iter, d+1) + ")"
	case *ssa.Select:
		var sts []string
		for _, st := range v.States {
			dir := "<-"
			if st.Dir == types.SendOnly {
				dir = "->"
			}
			sts = append(sts, dir+c.termD(st.Chan, d+1))
		}
		if !v.Blocking {
			sts = append(sts, "default")
		}
		return "select[" + strings.Join(sts, ",") + "]"
	}
	return fmt.Sprintf("?%T", v)
}

func (c *Canon) lval(v ssa.Value, d int) string {
	switch v := v.(type) {
	case *ssa.FieldAddr:
		base := c.termD(v.X, d+1)
		base = uncopy(strings.TrimPrefix(base, "&"))
		return base + "." + fieldName(v.X.Type(), v.Field)
	case *ssa.IndexAddr:
		base := c.termD(v.X, d+1)
		base = uncopy(strings.TrimPrefix(base, "&"))
		return base + "[" + c.termD(v.Index, d+1) + "]"
	}
	return c.termD(v, d)
}

// uncopy: "{V}" is a local that only ever holds V (a range value, a by-value copy); a field or
// element of the copy is the field or element of V.
func uncopy(base string) string {
	if len(base) < 3 || base[0] != '{' || base[len(base)-1] != '}' {
		return base
	}
	depth := 0
	for i := 0; i < len(base); i++ {
		switch base[i] {
		case '{':
			depth++
		case '}':
			depth--
			if depth == 0 && i != len(base)-1 {
				return base
			}
		}
	}
	return base[1 : len(base)-1]
}

func (c *Canon) calleeName(cc *ssa.CallCommon) string {
	if cc.IsInvoke() {
		recv := cc.Value.Type()
		return "(" + short(recv.String()) + ")." + cc.Method.Name()
	}
	switch f := cc.Value.(type) {
	case *ssa.Function:
		if n := funcName(f); n != "fmt.Errorf" {
			return n
		}
		return "errors.New" // message texts (and verbs) are elided: the two constructors are one
	case *ssa.Builtin:
		return f.Name()
	case *ssa.MakeClosure:
		return funcName(f.Fn.(*ssa.Function))
	}
	return "dyn:" + c.term(cc.Value)
}

func (c *Canon) call(cc *ssa.CallCommon, d int) string {
	name := c.calleeName(cc)
	if name == "(time.Time).After" && len(cc.Args) == 2 {
		// a.After(b) == b.Before(a)
		return "(time.Time).Before(" + c.termD(cc.Args[1], d+1) + "," + c.termD(cc.Args[0], d+1) + ")"
	}
	if strings.HasPrefix(name, "fmt.") || name == "errors.New" {
		return name + "(…)" // message texts are not part of any rule
	}
	var args []string
	if cc.IsInvoke() {
		args = append(args, c.termD(cc.Value, d+1))
	}
	for i := range cc.Args {
		args = append(args, c.argTerm(cc, i, d+1))
	}
	return name + "(" + strings.Join(args, ",") + ")"
}

// argTerm renders argument i of a call.
func (c *Canon) argTerm(cc *ssa.CallCommon, i int, d int) string {
	t := c.termD(cc.Args[i], d)
	callee := cc.StaticCallee()
	if strings.HasPrefix(t, "&{") && strings.HasSuffix(t, "}") && callee != nil && !cc.IsInvoke() && i < len(callee.Params) {
		// the address of a by-value copy, handed to a callee that only reads through it
		if inner := uncopy(t[1:]); inner != t[1:] && !strings.ContainsAny(inner, "(φ") && readOnlyParam(callee.Params[i], 0) {
			t = "&" + inner
		}
	}
	return t
}

func isCmp(op token.Token) bool {
	switch op {
	case token.EQL, token.NEQ, token.LSS, token.LEQ, token.GTR, token.GEQ:
		return true
	}
	return false
}

func negOp(op token.Token) token.Token {
	switch op {
	case token.EQL:
		return token.NEQ
	case token.NEQ:
		return token.EQL
	case token.LSS:
		return token.GEQ
	case token.GEQ:
		return token.LSS
	case token.GTR:
		return token.LEQ
	case token.LEQ:
		return token.GTR
	}
	return op
}

func mirrorOp(op token.Token) token.Token {
	switch op {
	case token.LSS:
		return token.GTR
	case token.GTR:
		return token.LSS
	case token.LEQ:
		return token.GEQ
	case token.GEQ:
		return token.LEQ
	}
	return op
}

func intConst(v ssa.Value) (*big.Int, bool) {
	for {
		switch x := v.(type) {
		case *ssa.Convert:
			v = x.X
			continue
		case *ssa.ChangeType:
			v = x.X
			continue
		}
		break
	}
	k, ok := v.(*ssa.Const)
	if !ok || k.Value == nil || k.Value.Kind() != constant.Int {
		return nil, false
	}
	b, ok := new(big.Int).SetString(k.Value.ExactString(), 10)
	return b, ok
}

// cmpCall recognises three-way comparison calls folded against zero:
// (*big.Int).Cmp(a,b) ⋈ 0  ≡  a ⋈ b ; bytes.Compare(a,b) ⋈ 0 likewise.
func (c *Canon) cmpCall(v ssa.Value) (ssa.Value, ssa.Value, bool) {
	call, ok := v.(*ssa.Call)
	if !ok {
		return nil, nil, false
	}
	f := call.Common().StaticCallee()
	if f == nil {
		return nil, nil, false
	}
	switch f.String() {
	case "(*math/big.Int).Cmp", "bytes.Compare", "(*math/big.Int).CmpAbs":
		a := call.Common().Args
		if len(a) == 2 {
			return a[0], a[1], true
		}
	}
	return nil, nil, false
}

// cmpAtom renders a comparison in normal form. pos=false renders its negation.
func (c *Canon) cmpAtom(b *ssa.BinOp, pos bool, d int) string {
	op := b.Op
	x, y := b.X, b.Y
	if _, ok := intConst(x); ok {
		if _, ok2 := intConst(y); !ok2 {
			x, y = y, x
			op = mirrorOp(op)
		}
	}
	if k, ok := x.(*ssa.Const); ok && k.Value == nil {
		x, y = y, x
		op = mirrorOp(op)
	}
	if !pos {
		op = negOp(op)
	}
	// three-way compare folded against 0
	if z, ok := intConst(y); ok && z.Sign() == 0 {
		if a1, a2, ok := c.cmpCall(x); ok {
			return c.cmp2(op, a1, a2, d)
		}
	}
	// Cmp(a,b) == 1  ≡ a > b ; == -1 ≡ a < b
	if z, ok := intConst(y); ok && (op == token.EQL || op == token.NEQ) && z.IsInt64() && (z.Int64() == 1 || z.Int64() == -1) {
		if a1, a2, ok := c.cmpCall(x); ok {
			nop := token.GTR
			if z.Int64() == -1 {
				nop = token.LSS
			}
			if op == token.NEQ {
				nop = negOp(nop)
			}
			return c.cmp2(nop, a1, a2, d)
		}
	}
	return c.cmp2(op, x, y, d)
}

// foldAddConst: (x + c1) op c2  ==  x op (c2 - c1) for integer constants (no overflow concern
// for the lengths and counts this is applied to: both forms are rendered identically).
func foldAddConst(x ssa.Value, k *big.Int) (ssa.Value, *big.Int, bool) {
	b, ok := stripConv(x).(*ssa.BinOp)
	if !ok || (b.Op != token.ADD && b.Op != token.SUB) {
		return nil, nil, false
	}
	if c1, ok := intConst(b.Y); ok {
		if _, isC := intConst(b.X); isC {
			return nil, nil, false
		}
		if b.Op == token.ADD {
			return b.X, new(big.Int).Sub(k, c1), true
		}
		return b.X, new(big.Int).Add(k, c1), true
	}
	if c1, ok := intConst(b.X); ok && b.Op == token.ADD {
		return b.Y, new(big.Int).Sub(k, c1), true
	}
	return nil, nil, false
}

func (c *Canon) cmp2(op token.Token, x, y ssa.Value, d int) string {
	if _, ok := intConst(x); ok {
		if _, ok2 := intConst(y); !ok2 {
			x, y = y, x
			op = mirrorOp(op)
		}
	}
	if k, ok := intConst(y); ok {
		if nx, nk, ok := foldAddConst(x, k); ok {
			x = nx
			y = ssa.NewConst(constant.MakeFromLiteral(nk.String(), token.INT, 0), types.Typ[types.Int64])
		}
	}
	xs := c.orderOperand(x, op, d+1)
	if k, ok := intConst(y); ok {
		// integer boundary shift to >= / <=
		switch op {
		case token.GTR:
			k = new(big.Int).Add(k, big.NewInt(1))
			op = token.GEQ
		case token.LSS:
			k = new(big.Int).Sub(k, big.NewInt(1))
			op = token.LEQ
		}
		// a length or an unsigned value: x <= 0 is x == 0, x >= 1 is x != 0
		if nonNegative(x) {
			if op == token.LEQ && k.Sign() == 0 {
				return xs + " == 0"
			}
			if op == token.GEQ && k.IsInt64() && k.Int64() == 1 {
				return xs + " != 0"
			}
		}
		ys := k.String()
		if kc, ok := stripConv(y).(*ssa.Const); ok && (op == token.EQL || op == token.NEQ) {
			ys = c.constStr(kc)
		}
		return xs + " " + op.String() + " " + ys
	}
	ys := c.orderOperand(y, op, d+1)
	switch op {
	case token.EQL, token.NEQ:
		if xs > ys {
			xs, ys = ys, xs
		}
	case token.GTR:
		xs, ys, op = ys, xs, token.LSS
	case token.GEQ:
		xs, ys, op = ys, xs, token.LEQ
	}
	return xs + " " + op.String() + " " + ys
}

// derefTerm renders the value loaded through the pointer px (what `*px` denotes).
func (c *Canon) derefTerm(px ssa.Value, d int) string {
	switch x := px.(type) {
	case *ssa.FieldAddr:
		lv := c.lval(x, d)
		if s, ok := selectLitField(lv); ok {
			return s
		}
		return lv
	case *ssa.IndexAddr:
		return c.lval(x, d)
	case *ssa.Global:
		return c.termD(x, d+1)
	case *ssa.Alloc:
		t := c.termD(x, d)
		if t == "↺" {
			return "↺"
		}
		if strings.HasPrefix(t, "&{") && strings.HasSuffix(t, "}") {
			return t[2 : len(t)-1]
		}
		if strings.HasPrefix(t, "&μ(") {
			return t[1:]
		}
		if strings.HasPrefix(t, "&") && strings.HasSuffix(t, "}") && strings.Contains(t, "{") {
			return t[1:]
		}
		if x.Comment != "" {
			return c.localName(x)
		}
	case *ssa.FreeVar:
		if t, ok := c.capturedValue(x); ok {
			return t
		}
		return "‹" + x.Name() + "›"
	}
	return "*" + c.termD(px, d+1)
}

// nonNilPtr: the pointer is an address the program took itself (of a variable, field or element),
// or the result of a function all of whose returns are such addresses.
func nonNilPtr(v ssa.Value, depth int) bool {
	switch x := v.(type) {
	case *ssa.Alloc, *ssa.FieldAddr, *ssa.IndexAddr, *ssa.Global:
		return true
	case *ssa.Call:
		fn := x.Common().StaticCallee()
		if fn == nil || fn.Blocks == nil || depth > 1 || fn.Signature.Results().Len() != 1 {
			return false
		}
		n := 0
		for _, b := range fn.Blocks {
			if len(b.Instrs) == 0 {
				continue
			}
			if r, ok := b.Instrs[len(b.Instrs)-1].(*ssa.Return); ok {
				if len(r.Results) != 1 || !nonNilPtr(r.Results[0], depth+1) {
					return false
				}
				n++
			}
		}
		return n > 0
	}
	return false
}

// hashIsEqual recognises (*chainhash.Hash).IsEqual(a, b) with both pointers provably non-nil: it is
// then exactly the array comparison *a == *b (the method's nil handling cannot be reached).
func hashIsEqual(v *ssa.Call) (ssa.Value, ssa.Value, bool) {
	fn := v.Common().StaticCallee()
	if fn == nil || fn.Name() != "IsEqual" || fn.Signature.Recv() == nil || len(v.Common().Args) != 2 {
		return nil, nil, false
	}
	if fn.Pkg == nil || !strings.HasSuffix(strings.TrimSuffix(fn.Pkg.Pkg.Path(), "/v2"), "/chainhash") {
		return nil, nil, false
	}
	a, b := v.Common().Args[0], v.Common().Args[1]
	if !nonNilPtr(a, 0) || !nonNilPtr(b, 0) {
		return nil, nil, false
	}
	return a, b, true
}

func (c *Canon) hashEqAtom(a, b ssa.Value, pos bool, d int) string {
	xs, ys := c.derefTerm(a, d+1), c.derefTerm(b, d+1)
	if xs > ys {
		xs, ys = ys, xs
	}
	if pos {
		return xs + " == " + ys
	}
	return xs + " != " + ys
}

func stripConv(v ssa.Value) ssa.Value {
	for {
		switch x := v.(type) {
		case *ssa.Convert:
			v = x.X
		case *ssa.ChangeType:
			v = x.X
		default:
			return v
		}
	}
}

// condAtom renders a branch condition as an atom that is true on the branch
// taken (pos=true: the If's true successor).
func (c *Canon) condAtom(cond ssa.Value, pos bool) string {
	a := c.condAtom0(cond, pos)
	if !c.inNeg {
		c.inNeg = true
		b := c.condAtom0(cond, !pos)
		c.inNeg = false
		registerNeg(a, b)
	}
	return a
}

var (
	negMu  sync.Mutex
	negMap = map[string]string{}
)

// registerNeg records that two atoms are each other's negation (both renderings of one condition).
func registerNeg(a, b string) {
	if a == b || a == "true" || a == "false" {
		return
	}
	negMu.Lock()
	negMap[a], negMap[b] = b, a
	negMu.Unlock()
}

// negAtomOf: only plain atoms take part. Every plain atom is produced by condAtom, which registers
// it with its negation at that moment, so the answer does not depend on what was rendered before;
// composite atoms (joins, boolean terms, loop conditions) are built elsewhere and would only be
// known by the accident of an earlier rendering.
func negAtomOf(a string) (string, bool) {
	if compositeAtom(a) {
		return "", false
	}
	negMu.Lock()
	b, ok := negMap[a]
	negMu.Unlock()
	if !ok || compositeAtom(b) {
		return "", false
	}
	return b, true
}

func compositeAtom(a string) bool {
	a = strings.TrimPrefix(a, "!")
	for _, p := range []string{"[", "loop(", "each(", "ite(", "μ(", "φ("} {
		if strings.HasPrefix(a, p) {
			return true
		}
	}
	if strings.HasPrefix(a, "(") {
		// wholly parenthesised (a short-circuit join), as opposed to "(*T).M(x)" or "(a+b) < c"
		depth := 0
		for i := 0; i < len(a); i++ {
			switch a[i] {
			case '(':
				depth++
			case ')':
				depth--
				if depth == 0 {
					return i == len(a)-1
				}
			}
		}
	}
	return false
}

func (c *Canon) condAtom0(cond ssa.Value, pos bool) string {
	switch v := cond.(type) {
	case *ssa.BinOp:
		if isCmp(v.Op) {
			return c.cmpAtom(v, pos, 0)
		}
	case *ssa.UnOp:
		if v.Op == token.NOT {
			return c.condAtom(v.X, !pos)
		}
	case *ssa.Const:
		if v.Value != nil && v.Value.Kind() == constant.Bool {
			if constant.BoolVal(v.Value) == pos {
				return "true"
			}
			return "false"
		}
	case *ssa.Call:
		if a, b, ok := hashIsEqual(v); ok {
			return c.hashEqAtom(a, b, pos, 0)
		}
		if hf := c.inlined(v.Common()); hf != nil && hf.mode == rejNone && v.Common().Signature().Results().Len() == 1 {
			if rv, ok := hf.resultValue(0); ok {
				return hf.c.condAtom(rv, pos)
			}
		}
	}
	s := c.term(cond)
	if pos {
		return s
	}
	return "!" + s
}

// itePhi renders a two-way phi at the join of an if/else diamond as
// ite(cond; then; else), so the selecting condition is part of the term.
func (c *Canon) itePhi(v *ssa.Phi, d int) (string, bool) {
	if len(v.Edges) != 2 {
		return "", false
	}
	blk := v.Block()
	dom := blk.Idom()
	if dom == nil || len(dom.Instrs) == 0 {
		return "", false
	}
	iff, ok := dom.Instrs[len(dom.Instrs)-1].(*ssa.If)
	if !ok || dom.Succs[0] == dom.Succs[1] {
		return "", false
	}
	side := func(pred *ssa.BasicBlock) int {
		for k := 0; k < 2; k++ {
			s := dom.Succs[k]
			if s == blk && pred == dom {
				return k
			}
			if s != blk && s.Dominates(pred) {
				return k
			}
		}
		return -1
	}
	k0, k1 := side(blk.Preds[0]), side(blk.Preds[1])
	if k0 < 0 || k1 < 0 || k0 == k1 {
		return "", false
	}
	// loop-carried phis are not diamonds
	if blk.Dominates(blk.Preds[0]) || blk.Dominates(blk.Preds[1]) {
		return "", false
	}
	t, e := v.Edges[0], v.Edges[1]
	if k0 == 1 {
		t, e = e, t
	}
	return "ite(" + c.condAtom(iff.Cond, true) + "; " + c.termD(t, d+1) + "; " + c.termD(e, d+1) + ")", true
}

// compositeLit renders a local struct/array built field by field (a composite
// literal) with its contents: &T{f:v, ...}. Only when every use of the alloc is
// a field/element address stored to at most once, a load, or passing the value on.
func (c *Canon) compositeLit(a *ssa.Alloc, d int) (string, bool) {
	pt, ok := a.Type().(*types.Pointer)
	if !ok {
		return "", false
	}
	st, ok := pt.Elem().Underlying().(*types.Struct)
	if !ok {
		return "", false
	}
	vals := map[int]string{}
	for _, ref := range *a.Referrers() {
		fa, ok := ref.(*ssa.FieldAddr)
		if !ok {
			continue
		}
		for _, r2 := range *fa.Referrers() {
			if s, ok := r2.(*ssa.Store); ok && s.Addr == ssa.Value(fa) {
				if _, dup := vals[fa.Field]; dup {
					vals[fa.Field] = "φ(" + vals[fa.Field] + "|" + c.termD(s.Val, d+1) + ")"
				} else {
					vals[fa.Field] = c.termD(s.Val, d+1)
				}
			}
		}
	}
	var parts []string
	for _, ref := range *a.Referrers() {
		if st2, ok := ref.(*ssa.Store); ok && st2.Addr == ssa.Value(a) {
			parts = append(parts, "="+c.termD(st2.Val, d+1))
		}
	}
	sort.Strings(parts)
	if len(vals) == 0 {
		return "", false
	}
	for i := 0; i < st.NumFields(); i++ {
		if v, ok := vals[i]; ok {
			parts = append(parts, fieldDisplayName(st.Field(i))+":"+v)
		}
	}
	name := short(pt.Elem().String())
	return "&" + name + "{" + strings.Join(parts, ", ") + "}", true
}

// allocStores returns the values stored directly into the local, provided the local is used in
// no other way than whole-value stores, loads, and captures by closures that never store to it
// (no partial field/element writes, no address passed to a call).
func (c *Canon) allocStores(a *ssa.Alloc) ([]ssa.Value, bool, bool) {
	var vals []ssa.Value
	strict := true
	for _, ref := range *a.Referrers() {
		switch r := ref.(type) {
		case *ssa.Store:
			if r.Addr != ssa.Value(a) {
				return nil, false, false // the address itself is stored somewhere
			}
			vals = append(vals, r.Val)
		case *ssa.UnOp, *ssa.DebugRef:
		case *ssa.MakeClosure:
			fn := r.Fn.(*ssa.Function)
			for i, b := range r.Bindings {
				if b == ssa.Value(a) && i < len(fn.FreeVars) && freeVarWritten(fn.FreeVars[i], 0) {
					return nil, false, false
				}
			}
		case *ssa.FieldAddr, *ssa.IndexAddr:
			// partial reads are fine, partial writes are not
			if addrWritten(r.(ssa.Value), 0) {
				return nil, false, false
			}
		case *ssa.Slice:
			strict = false
		case ssa.CallInstruction:
			// address handed to a callee (hash := f(); g(&hash)): the single initial value still
			// identifies the variable, but several stores are no longer a closed set
			strict = false
		default:
			return nil, false, false
		}
	}
	return vals, strict, len(vals) > 0
}

func addrWritten(v ssa.Value, depth int) bool {
	if depth > 4 {
		return true
	}
	for _, ref := range *v.Referrers() {
		switch r := ref.(type) {
		case *ssa.Store:
			if r.Addr == v {
				return true
			}
			return true // address escapes into memory
		case *ssa.UnOp, *ssa.DebugRef:
		case *ssa.FieldAddr:
			if addrWritten(r, depth+1) {
				return true
			}
		case *ssa.IndexAddr:
			if addrWritten(r, depth+1) {
				return true
			}
		default:
			return true
		}
	}
	return false
}

func freeVarWritten(fv *ssa.FreeVar, depth int) bool {
	if depth > 3 {
		return true
	}
	for _, ref := range *fv.Referrers() {
		switch r := ref.(type) {
		case *ssa.Store:
			return true
		case *ssa.UnOp, *ssa.DebugRef:
		case *ssa.MakeClosure:
			fn := r.Fn.(*ssa.Function)
			for i, b := range r.Bindings {
				if b == ssa.Value(fv) && i < len(fn.FreeVars) && freeVarWritten(fn.FreeVars[i], depth+1) {
					return true
				}
			}
		case *ssa.FieldAddr, *ssa.IndexAddr:
			if addrWritten(r.(ssa.Value), 0) {
				return true
			}
		default:
			return true
		}
	}
	return false
}

// selectLitField: "pkg.T{a:x, b:pkg.U{c:y}}.b.c" -> "y". A field read from a composite literal
// whose stores are all visible is the value stored there; the literal is only a carrier (e.g. a
// descriptor built by the caller and read back by a helper).
func selectLitField(lv string) (string, bool) {
	changed := false
	for {
		open := strings.IndexByte(lv, '{')
		if open <= 0 || strings.ContainsAny(lv[:open], " ()[]<>&*|,;") {
			return lv, changed
		}
		depth, end := 0, -1
		for i := open; i < len(lv); i++ {
			switch lv[i] {
			case '{', '(', '[':
				depth++
			case '}', ')', ']':
				depth--
			}
			if depth == 0 {
				end = i
				break
			}
		}
		if end < 0 || end+1 >= len(lv) || lv[end+1] != '.' {
			return lv, changed
		}
		rest := lv[end+2:]
		name := rest
		if i := strings.IndexAny(rest, ".[ "); i >= 0 {
			if rest[i] == ' ' {
				return lv, changed
			}
			name = rest[:i]
		}
		rest = rest[len(name):]
		// top-level entries of the literal
		body := lv[open+1 : end]
		val, found := "", false
		depth = 0
		start := 0
		for i := 0; i <= len(body); i++ {
			if i < len(body) {
				switch body[i] {
				case '{', '(', '[':
					depth++
				case '}', ')', ']':
					depth--
				}
			}
			if i == len(body) || (depth == 0 && body[i] == ',' && i+1 < len(body) && body[i+1] == ' ') {
				ent := strings.TrimSpace(body[start:i])
				if strings.HasPrefix(ent, name+":") {
					val, found = ent[len(name)+1:], true
				}
				start = i + 1
			}
		}
		if !found || strings.HasPrefix(val, "φ(") || strings.Contains(val, "…") || strings.Contains(val, "↺") {
			return lv, changed
		}
		if rest != "" && strings.HasPrefix(val, "&") {
			val = val[1:]
		}
		lv = val + rest
		changed = true
		if rest == "" {
			return lv, true
		}
	}
}

// nonNegative: len/cap results and values of unsigned integer type.
func nonNegative(v ssa.Value) bool {
	if call, ok := stripConv(v).(*ssa.Call); ok {
		if bi, ok := call.Common().Value.(*ssa.Builtin); ok && (bi.Name() == "len" || bi.Name() == "cap") {
			return true
		}
	}
	if b, ok := v.Type().Underlying().(*types.Basic); ok && b.Info()&types.IsUnsigned != 0 {
		return true
	}
	return false
}

// ---- pointer to a copy vs pointer to the original ----------------------------

var readOnlyParamCache = map[*ssa.Parameter]int{} // 1 yes, 2 no, 3 in progress

// readOnlyParam: the callee only reads through pointer parameter prm — it never stores through
// it, never stores the pointer itself, never returns it, and hands it on only to callees that
// do the same. For such a callee the address of a by-value copy and the address of the original
// are the same argument.
func readOnlyParam(prm *ssa.Parameter, depth int) bool {
	if v := readOnlyParamCache[prm]; v != 0 {
		return v == 1
	}
	if depth > 3 || prm.Parent() == nil || prm.Parent().Blocks == nil {
		return false
	}
	readOnlyParamCache[prm] = 3
	ok := addrOnlyRead(prm, depth)
	if ok {
		readOnlyParamCache[prm] = 1
	} else {
		readOnlyParamCache[prm] = 2
	}
	return ok
}

func addrOnlyRead(v ssa.Value, depth int) bool {
	refs := v.Referrers()
	if refs == nil {
		return false
	}
	for _, ref := range *refs {
		switch r := ref.(type) {
		case *ssa.DebugRef:
		case *ssa.UnOp:
			if r.Op != token.MUL {
				return false
			}
		case *ssa.FieldAddr:
			if !addrOnlyRead(r, depth) {
				return false
			}
		case *ssa.IndexAddr:
			if !addrOnlyRead(r, depth) {
				return false
			}
		case *ssa.Slice:
			// x[:] of an array pointer: the slice aliases the array; allow only as a read-only argument
			if !addrOnlyRead(r, depth) {
				return false
			}
		case *ssa.BinOp:
			if r.Op != token.EQL && r.Op != token.NEQ {
				return false
			}
		case *ssa.Call:
			cc := r.Common()
			if cc.IsInvoke() {
				return false
			}
			if bi, isB := cc.Value.(*ssa.Builtin); isB {
				switch bi.Name() {
				case "len", "cap":
					continue
				case "copy":
					if len(cc.Args) == 2 && cc.Args[0] != v {
						continue // source of a copy
					}
				}
				return false
			}
			callee := cc.StaticCallee()
			if callee == nil || callee.Blocks == nil || cc.Value == v {
				return false
			}
			for i, a := range cc.Args {
				if a == v {
					if i >= len(callee.Params) || !readOnlyParam(callee.Params[i], depth+1) {
						return false
					}
				}
			}
		default:
			return false
		}
	}
	return true
}

// capturedValue: the value a captured variable holds, in the enclosing function's terms, when the
// enclosing function stores into it exactly once and nobody writes it afterwards. A closure's free
// variables are then not opaque names bound by position: `rollback := func() { f(a, b) }` with
// a := x.p; b := x.q is f(↑x.p, ↑x.q), whatever the locals are called and in whatever order they
// were declared.
func (c *Canon) capturedValue(fv *ssa.FreeVar) (string, bool) {
	if !c.parentDone {
		c.parentDone = true
		par := c.fn.Parent()
		if par != nil && par.Blocks != nil {
		search:
			for _, b := range par.Blocks {
				for _, in := range b.Instrs {
					if mc, ok := in.(*ssa.MakeClosure); ok && mc.Fn == ssa.Value(c.fn) {
						c.parentMC = mc
						break search
					}
				}
			}
			if c.parentMC != nil {
				c.parentCanon = c.p.facts(par, defaultRejectMode(par)).c
				c.parentCanon.env = nil
			}
		}
	}
	if c.parentMC == nil || c.parentCanon == nil {
		return "", false
	}
	idx := -1
	for i, f := range c.fn.FreeVars {
		if f == fv {
			idx = i
		}
	}
	if idx < 0 || idx >= len(c.parentMC.Bindings) {
		return "", false
	}
	al, ok := c.parentMC.Bindings[idx].(*ssa.Alloc)
	if !ok {
		return "", false
	}
	if freeVarWritten(fv, 0) {
		return "", false
	}
	vals, strict, ok := c.parentCanon.allocStores(al)
	if !ok || !strict || len(vals) != 1 {
		return "", false
	}
	t := c.parentCanon.term(vals[0])
	if strings.Contains(t, "↺") || strings.Contains(t, "…") {
		return "", false
	}
	return "↑" + t, true
}

// orderOperand renders an operand of a comparison. Conversions are erased everywhere else, but in
// an ordering comparison a conversion that changes signedness or narrows the value decides the
// outcome (`uint32(v) >= 2` holds for a negative v, `v >= 2` does not; `int(n) > max` is false for
// n >= 2^63): it is kept.
func (c *Canon) orderOperand(v ssa.Value, op token.Token, d int) string {
	if op == token.LSS || op == token.LEQ || op == token.GTR || op == token.GEQ {
		if cv, ok := v.(*ssa.Convert); ok {
			from, ok1 := cv.X.Type().Underlying().(*types.Basic)
			to, ok2 := cv.Type().Underlying().(*types.Basic)
			if ok1 && ok2 && from.Info()&types.IsInteger != 0 && to.Info()&types.IsInteger != 0 {
				fs, ts := from.Info()&types.IsUnsigned != 0, to.Info()&types.IsUnsigned != 0
				if fs != ts || intBits(to) < intBits(from) {
					if _, isConst := cv.X.(*ssa.Const); !isConst {
						return to.Name() + "(" + c.orderOperand(cv.X, op, d) + ")"
					}
				}
			}
			return c.orderOperand(cv.X, op, d)
		}
	}
	return c.termD(v, d)
}

func intBits(b *types.Basic) int {
	switch b.Kind() {
	case types.Int8, types.Uint8:
		return 8
	case types.Int16, types.Uint16:
		return 16
	case types.Int32, types.Uint32:
		return 32
	}
	return 64
}
