package main

import (
	"encoding/json"
	"fmt"
	"os"
	"path/filepath"
	"sort"
	"strings"
	"time"
)

// Obligation is one evaluated rule instance: rule id + construct it was
// evaluated on (function, field, callee, table row — never a line number).
type Obligation struct {
	Rule      string `json:"rule"`
	Construct string `json:"construct"`
	Pos       string `json:"at,omitempty"`
	OK        bool   `json:"ok"`
	Detail    string `json:"detail,omitempty"`
	Known     bool   `json:"known_finding,omitempty"`
	Trivial   bool   `json:"-"`
}

func (o *Obligation) Key() string { return o.Rule + " " + o.Construct }

type Report struct {
	Prop     string
	Tier     string
	Obs      []*Obligation
	Notes    []string
	Analysed map[string]int
	start    time.Time
	minimums map[string]int // rule-kind -> minimum instance count
	counts   map[string]int

	lastViolations []*Obligation
	extraCoverage  map[string]any
	mutantGuards   []mutTarget
}

type mutTarget struct {
	file string // absolute path
	pos  int    // byte offset of the comparison operator
	fn   string
	key  string
}

func newReport(prop, tier string) *Report {
	return &Report{Prop: prop, Tier: tier, Analysed: map[string]int{}, start: time.Now(), minimums: map[string]int{}, counts: map[string]int{}}
}

func (r *Report) add(rule, construct, pos string, ok bool, detail string) *Obligation {
	o := &Obligation{Rule: rule, Construct: construct, Pos: pos, OK: ok, Detail: detail}
	r.Obs = append(r.Obs, o)
	kind := rule
	if i := strings.Index(rule, "/"); i > 0 {
		kind = rule[:i]
	}
	r.counts[kind]++
	return o
}

func (r *Report) pass(rule, construct, pos, detail string) { r.add(rule, construct, pos, true, detail) }
func (r *Report) fail(rule, construct, pos, detail string) { r.add(rule, construct, pos, false, detail) }

// need records the frozen minimum number of instances a rule kind must have
// matched; a rule that silently matches nothing fails.
func (r *Report) need(kind string, min int) { r.minimums[kind] = min }

type knownFinding struct {
	prop, rule, construct, what string
}

func loadKnown() ([]knownFinding, error) {
	b, err := os.ReadFile(filepath.Join(verifDir(), "known_findings.txt"))
	if err != nil {
		if os.IsNotExist(err) {
			return nil, nil
		}
		return nil, err
	}
	var out []knownFinding
	for _, ln := range strings.Split(string(b), "\n") {
		ln = strings.TrimSpace(ln)
		if !strings.HasPrefix(ln, "finding:") {
			continue // "fixed:" lines and comments suppress nothing
		}
		kf := knownFinding{}
		rest := strings.TrimSpace(strings.TrimPrefix(ln, "finding:"))
		// finding: property=C10 rule=<rule> construct=<...> :: what
		what := ""
		if i := strings.Index(rest, " || "); i >= 0 {
			what = rest[i+4:]
			rest = rest[:i]
		}
		kf.what = what
		if i := strings.Index(rest, " construct="); i >= 0 {
			kf.construct = rest[i+len(" construct="):]
			rest = rest[:i]
		}
		for _, f := range strings.Fields(rest) {
			if strings.HasPrefix(f, "property=") {
				kf.prop = f[9:]
			}
			if strings.HasPrefix(f, "rule=") {
				kf.rule = f[5:]
			}
		}
		out = append(out, kf)
	}
	return out, nil
}

type evidence struct {
	PropertyID  string         `json:"property_id"`
	Tier        string         `json:"tier"`
	Seed        int            `json:"seed"`
	Level       string         `json:"level"`
	Coverage    map[string]any `json:"coverage"`
	Assumptions []string       `json:"assumptions"`
	WallS       float64        `json:"wall_s"`
	Violations  int            `json:"violations"`
}

// finish prints the verdict, writes evidence and returns the exit code.
func (r *Report) finish(explanation string, assumptions []string) int {
	known, err := loadKnown()
	if err != nil {
		r.fail("internal", "known_findings.txt", "", err.Error())
	}
	for kind, min := range r.minimums {
		if r.counts[kind] < min {
			r.fail("instances/"+kind, kind, "", fmt.Sprintf("rule kind matched %d constructs, frozen minimum is %d (a rule that matches nothing cannot pass)", r.counts[kind], min))
		} else {
			r.pass("instances/"+kind, kind, "", fmt.Sprintf("%d >= %d", r.counts[kind], min))
		}
	}
	sort.SliceStable(r.Obs, func(i, j int) bool { return r.Obs[i].Key() < r.Obs[j].Key() })
	var viol []*Obligation
	usedKnown := map[int]bool{}
	for _, o := range r.Obs {
		if o.OK {
			continue
		}
		matched := false
		for i, k := range known {
			if k.prop == r.Prop && k.rule == o.Rule && k.construct == o.Construct {
				matched = true
				usedKnown[i] = true
				o.Known = true
				fmt.Printf("KNOWN-FINDING: property=%s %s [%s %s] %s\n", r.Prop, k.what, o.Rule, o.Construct, o.Pos)
			}
		}
		if !matched {
			viol = append(viol, o)
		}
	}
	distinct := map[string]bool{}
	for _, o := range r.Obs {
		if !o.Trivial {
			distinct[o.Key()] = true
		}
	}
	nOK := 0
	for _, o := range r.Obs {
		if o.OK {
			nOK++
		}
	}
	if show := os.Getenv("VERIF_SHOW"); show != "" {
		for _, o := range r.Obs {
			if strings.HasPrefix(o.Rule, show) {
				fmt.Printf("  [%v] %s | %s | %s | %s\n", o.OK, o.Rule, o.Construct, o.Pos, o.Detail)
			}
		}
	}
	fmt.Printf("property %s tier=%s: %d obligations evaluated, %d discharged, %d distinct constructs, %d violations\n",
		r.Prop, r.Tier, len(r.Obs), nOK, len(distinct), len(viol))
	var samples []any
	step := 1
	if len(r.Obs) > 40 {
		step = len(r.Obs) / 40
	}
	for i := 0; i < len(r.Obs); i += step {
		samples = append(samples, r.Obs[i])
	}
	for _, o := range viol {
		samples = append(samples, o)
	}
	seed := 0
	fmt.Sscanf(os.Getenv("VERIF_SEED"), "%d", &seed)
	ev := evidence{PropertyID: r.Prop, Tier: r.Tier, Seed: seed, Level: "other",
		Coverage: map[string]any{
			"explanation":         explanation,
			"evaluations":         len(r.Obs),
			"distinct_nontrivial": len(distinct),
			"rule":                "one evaluation per (rule instance, program construct) obligation decided on the SSA/AST of /repo's working tree; distinct = distinct (rule, construct) keys that inspected at least one construct of the program",
			"obligations":         len(r.Obs),
			"discharged":          nOK,
			"samples":             samples,
			"analysed":            r.Analysed,
			"rule_instances":      r.counts,
			"rule_minimums":       r.minimums,
			"notes":               r.Notes,
		},
		Assumptions: assumptions,
		WallS:       time.Since(r.start).Seconds(),
		Violations:  len(viol),
	}
	r.lastViolations = viol
	for k, v := range r.extraCoverage {
		ev.Coverage[k] = v
	}
	evdir := filepath.Join(verifDir(), "evidence")
	if d := os.Getenv("VERIF_EVIDENCE_DIR"); d != "" {
		evdir = d
	}
	os.MkdirAll(evdir, 0o755)
	b, _ := json.MarshalIndent(ev, "", " ")
	if err := os.WriteFile(filepath.Join(evdir, r.Prop+".json"), b, 0o644); err != nil {
		fmt.Println("cannot write evidence:", err)
		return 1
	}
	if len(viol) == 0 {
		return 0
	}
	repdir := filepath.Join(verifDir(), "reports")
	if d := os.Getenv("VERIF_EVIDENCE_DIR"); d != "" {
		repdir = d
	}
	os.MkdirAll(repdir, 0o755)
	rp := filepath.Join(repdir, fmt.Sprintf("%s-%s.json", r.Prop, r.Tier))
	var sb strings.Builder
	for _, o := range viol {
		fmt.Printf("%s: %s: %s: %s\n", o.Pos, o.Rule, o.Construct, o.Detail)
	}
	rb, _ := json.MarshalIndent(map[string]any{"property": r.Prop, "violations": viol}, "", " ")
	sb.Write(rb)
	os.WriteFile(rp, []byte(sb.String()), 0o644)
	fmt.Printf("VIOLATION property=%s replay=%s\n", r.Prop, rp)
	return 1
}
