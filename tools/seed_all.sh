#!/bin/bash
# run every stored seed against its property's check (sequentially; /repo is patched and restored each time)
cd /verif
for d in seeded/C*-*/; do s=$(basename $d); [ -n "$1" ] && [[ ! "$s" =~ $1 ]] && continue
  LINES_MAX=2 tools/seed_check.sh $s 2>&1 | head -3 | cut -c1-260
done
