#!/bin/bash
# runs the thorough tier of every property sequentially (each already uses 6 sub-processes)
cd /verif
for c in $(python3 -c "import json;print(' '.join(c['property_id'] for c in json.load(open('MANIFEST.json'))['checks']))"); do
  [ -n "$1" ] && [[ ! "$c" =~ $1 ]] && continue
  /usr/bin/time -f "%es" bin/btcdlint check $c --tier thorough > /tmp/thorough.$c.log 2>&1; echo "$c exit=$? $(grep '^property' /tmp/thorough.$c.log) $(tail -1 /tmp/thorough.$c.log)"
done
