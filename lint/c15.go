package main

import "golang.org/x/tools/go/ssa"

func init() {
	register(&propDef{
		id: "C15",
		explanation: "Persisted chain-state records. (1) Conformance tables: VLQ, script/amount compression, utxo entry, spend journal, best state and block row codecs (and the upgrade decoders) have exactly the reviewed end-of-data guards, exits with returned values (size calculators) and effects (field order and offsets of every put/read). " +
			"(2) Decoder robustness (independent of the tables): every make() size in these files has a static upper bound (interval analysis), and every unsigned 64-bit value converted to a signed integer and then used as slice bound, index or allocation size either provably fits or is tested for negativity on every path to the use (the rule that found the decodeCompressedTxOut panic). " +
			"Not decided: bijectivity of amount compression and VLQ arithmetic; readability of databases written by other versions.",
		run: func(p *Program, r *Report) {
			checkGuardsFile(p, r, "C15.guards")
			r.need("guard", 55)
			sel := inFiles(p, btcd+"/blockchain", "compress.go", "chainio.go", "upgrade.go")
			ruleAllocBounds(p, r, func(fn *ssa.Function) bool { return sel(fn) }, "blockchain-codecs")
			ruleSignedConv(p, r, func(fn *ssa.Function) bool { return sel(fn) })
			r.need("signed-conv", 2)
			ruleCursorAdvance(p, r, func(fn *ssa.Function) bool { return sel(fn) })
		},
	})
}
