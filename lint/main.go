package main

import (
	"fmt"
	"os"
	"runtime/debug"
	"strings"
	"time"
)

func main() {
	// go/packages resolves "go" through this process's PATH, not cfg.Env.
	os.Setenv("PATH", goRoot+"/bin:"+os.Getenv("PATH"))
	os.Unsetenv("GOWORK")
	if len(os.Args) < 2 {
		fmt.Fprintln(os.Stderr, "usage: btcdlint probe|discover|check ...")
		os.Exit(2)
	}
	switch os.Args[1] {
	case "discover":
		p, err := loadProgram(LoadOpts{})
		if err != nil {
			fmt.Println("ERR", err)
			os.Exit(1)
		}
		for _, n := range os.Args[2:] {
			mode := ""
			var track []string
			if i := strings.Index(n, "@"); i >= 0 {
				n, mode = n[:i], n[i+1:]
				if j := strings.Index(mode, "@"); j >= 0 {
					track = strings.Split(mode[j+1:], "|")
					mode = mode[:j]
				}
			}
			if err := discoverGuards(p, n, mode, track); err != nil {
				fmt.Println("ERR", err)
			}
		}
	case "events":
		p, err := loadProgram(LoadOpts{})
		if err != nil {
			fmt.Println("ERR", err)
			os.Exit(1)
		}
		if err := discoverEvents(p, os.Args[2], os.Args[3:]); err != nil {
			fmt.Println("ERR", err)
		}
	case "check":
		os.Exit(runCheck(os.Args[2:]))
	case "probe":
		t0 := time.Now()
		p, err := loadProgram(LoadOpts{})
		if err != nil {
			fmt.Println("ERR", err)
			os.Exit(1)
		}
		fmt.Printf("roots=%d all=%d funcs=%d v2roots=%d in %.1fs\n", len(p.Pkgs), len(p.All), p.NFuncs, len(p.V2.Pkgs), time.Since(t0).Seconds())
		for _, n := range os.Args[2:] {
			fmt.Println(n, p.Func(n))
		}
	}
}

func runCheck(args []string) int {
	tier := os.Getenv("VERIF_TIER")
	var id string
	for i := 0; i < len(args); i++ {
		switch args[i] {
		case "--tier":
			i++
			tier = args[i]
		default:
			id = args[i]
		}
	}
	if tier == "" {
		tier = "quick"
	}
	d := props[id]
	if d == nil {
		fmt.Println("unknown property", id)
		return 2
	}
	r := newReport(id, tier)
	func() {
		defer func() {
			if e := recover(); e != nil {
				r.fail("internal", "analysis panic", "", fmt.Sprint(e)+"\n"+string(debug.Stack()))
			}
		}()
		p, err := loadProgram(LoadOpts{})
		if err != nil {
			r.fail("load", "program", "", err.Error())
			return
		}
		r.Analysed["root_packages"] = len(p.Pkgs) + len(p.V2.Pkgs)
		r.Analysed["packages_with_deps"] = len(p.All)
		r.Analysed["ssa_functions"] = p.NFuncs + p.V2.NFuncs
		d.run(p, r)
	}()
	return r.finish(d.explanation, append(append([]string{}, commonAssumptions...), d.assumptions...))
}
