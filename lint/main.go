package main

import (
	"golang.org/x/tools/go/ssa"
	"encoding/json"
	"fmt"
	"os"
	"path/filepath"
	"regexp"
	"sort"
	"runtime/debug"
	"strings"
	"time"
)

func main() {
	// go/packages resolves "go" through this process's PATH, not cfg.Env.
	os.Setenv("PATH", goRoot+"/bin:"+os.Getenv("PATH"))
	os.Unsetenv("GOWORK")
	if len(os.Args) < 2 {
		fmt.Fprintln(os.Stderr, "usage: btcdlint probe|discover|check ...")
		os.Exit(2)
	}
	switch os.Args[1] {
	case "discover":
		p, err := loadProgram(LoadOpts{})
		if err != nil {
			fmt.Println("ERR", err)
			os.Exit(1)
		}
		discovered := map[string]bool{}
		for _, n := range os.Args[2:] {
			mode := ""
			var track []string
			if i := strings.Index(n, "@"); i >= 0 {
				n, mode = n[:i], n[i+1:]
				if j := strings.Index(mode, "@"); j >= 0 {
					track = strings.Split(mode[j+1:], "|")
					mode = mode[:j]
				}
			}
			for _, n1 := range expandNames(p, n) {
				if discovered[n1] {
					continue
				}
				discovered[n1] = true
				if err := discoverGuards(p, n1, mode, track); err != nil {
					fmt.Println("ERR", err)
					continue
				}
				// closures of an anchor function are part of it
				var anon func(fn *ssa.Function)
				anon = func(fn *ssa.Function) {
					for _, a := range fn.AnonFuncs {
						an := fullFuncName(a)
						if !discovered[an] {
							discovered[an] = true
							if err := discoverGuards(p, an, "", track); err != nil {
								fmt.Println("ERR", err)
							}
						}
						anon(a)
					}
				}
				if fn := p.Func(n1); fn != nil {
					anon(fn)
					// unexported helpers of the same package that the anchor calls directly are part of
					// its mechanism (depth 1)
					for _, b := range fn.Blocks {
						for _, in := range b.Instrs {
							ci, ok := in.(ssa.CallInstruction)
							if !ok {
								continue
							}
							cal := ci.Common().StaticCallee()
							if cal == nil || cal.Pkg != fn.Pkg || cal.Blocks == nil || cal.Parent() != nil || cal.Synthetic != "" {
								continue
							}
							if obj := cal.Object(); obj == nil || obj.Exported() {
								continue
							}
							hn := fullFuncName(cal)
							if discovered[hn] {
								continue
							}
							discovered[hn] = true
							if err := discoverGuards(p, hn, "", track); err != nil {
								fmt.Println("ERR", err)
							}
							anon(cal)
						}
					}
				}
			}
		}
	case "events":
		p, err := loadProgram(LoadOpts{})
		if err != nil {
			fmt.Println("ERR", err)
			os.Exit(1)
		}
		if err := discoverEvents(p, os.Args[2], os.Args[3:]); err != nil {
			fmt.Println("ERR", err)
		}
	case "errscan":
		p, err := loadProgram(LoadOpts{})
		if err != nil {
			fmt.Println("ERR", err)
			os.Exit(1)
		}
		for _, pp := range []*Program{p, p.V2} {
			var lines []string
			for fn := range allFuncs(pp) {
				if fn.Blocks == nil {
					continue
				}
				for _, s := range scanErrDiscipline(pp, fn) {
					lines = append(lines, fmt.Sprintf("%s %s %s  # %s", s.kind, short(fullFuncName(fn)), s.callee, pp.pos(s.pos)))
				}
			}
			sort.Strings(lines)
			for _, l := range lines {
				fmt.Println(l)
			}
		}
	case "funcs":
		p, err := loadProgram(LoadOpts{})
		if err != nil {
			fmt.Println("ERR", err)
			os.Exit(1)
		}
		for _, s := range listFuncs(p) {
			fmt.Println(s)
		}
	case "nilscan":
		p, err := loadProgram(LoadOpts{})
		if err != nil {
			fmt.Println("ERR", err)
			os.Exit(1)
		}
		nilScan(p)
	case "balance":
		p, err := loadProgram(LoadOpts{})
		if err != nil {
			fmt.Println("ERR", err)
			os.Exit(1)
		}
		for _, pp := range []*Program{p, p.V2} {
			var lines []string
			for fn := range allFuncs(pp) {
				if fn.Pkg == nil || !strings.HasPrefix(fn.Pkg.Pkg.Path(), btcdPrefix) {
					continue
				}
				for _, l := range lockBalance(pp, fn) {
					lines = append(lines, fmt.Sprintf("%s %s read=%v return at %s (acquired %s)", funcName(fn), l.key.mu, l.key.read, pp.pos(l.ret.Pos()), pp.pos(l.lock.Pos())))
				}
			}
			sort.Strings(lines)
			for _, l := range lines {
				fmt.Println(l)
			}
		}
	case "fields":
		p, err := loadProgram(LoadOpts{NoSSA: true})
		if err != nil {
			fmt.Println("ERR", err)
			os.Exit(1)
		}
		for _, s := range listFields(p) {
			fmt.Println(s)
		}
	case "params":
		p, err := loadProgram(LoadOpts{NoSSA: true})
		if err != nil {
			fmt.Println("ERR", err)
			os.Exit(1)
		}
		for _, n := range os.Args[2:] {
			paramsDump(p, n)
		}
	case "props":
		m := map[string]string{}
		for id, d := range props {
			m[id] = d.explanation
		}
		b, _ := json.MarshalIndent(m, "", " ")
		fmt.Println(string(b))
	case "check":
		os.Exit(runCheck(os.Args[2:]))
	case "explain":
		os.Exit(runExplain(os.Args[2:]))
	case "probe":
		t0 := time.Now()
		p, err := loadProgram(LoadOpts{})
		if err != nil {
			fmt.Println("ERR", err)
			os.Exit(1)
		}
		fmt.Printf("roots=%d all=%d funcs=%d v2roots=%d in %.1fs\n", len(p.Pkgs), len(p.All), p.NFuncs, len(p.V2.Pkgs), time.Since(t0).Seconds())
		for _, n := range os.Args[2:] {
			fmt.Println(n, p.Func(n))
		}
	}
}

func runCheck(args []string) int {
	tier := os.Getenv("VERIF_TIER")
	var id string
	for i := 0; i < len(args); i++ {
		switch args[i] {
		case "--tier":
			i++
			tier = args[i]
		default:
			id = args[i]
		}
	}
	if tier == "" {
		tier = "quick"
	}
	d := props[id]
	if d == nil {
		fmt.Println("unknown property", id)
		return 2
	}
	r := newReport(id, tier)
	func() {
		defer func() {
			if e := recover(); e != nil {
				r.fail("internal", "analysis panic", "", fmt.Sprint(e)+"\n"+string(debug.Stack()))
			}
		}()
		p, err := loadProgram(LoadOpts{})
		if err != nil {
			r.fail("load", "program", "", err.Error())
			return
		}
		r.Analysed["root_packages"] = len(p.Pkgs) + len(p.V2.Pkgs)
		r.Analysed["packages_with_deps"] = len(p.All)
		r.Analysed["ssa_functions"] = p.NFuncs + p.V2.NFuncs
		d.run(p, r)
		for _, f := range extras[id] {
			f(p, r)
		}
		if tier == "thorough" && os.Getenv("VERIF_EVIDENCE_DIR") == "" {
			runThorough(p, r, id)
		}
	}()
	return r.finish(d.explanation, append(append([]string{}, commonAssumptions...), d.assumptions...))
}

// expandNames expands "pkg.~regex" to all functions/methods of the package whose
// name (Func or (*T).M / (T).M) matches the regex.
func expandNames(p *Program, n string) []string {
	var fileSel string
	if j := strings.Index(n, ".file="); j >= 0 {
		fileSel = n[j+6:]
		n = n[:j] + ".~."
	}
	i := strings.Index(n, ".~")
	if i < 0 {
		return []string{n}
	}
	path, re := n[:i], regexp.MustCompile(n[i+2:])
	pp := p.progFor(path)
	sp := pp.SSAPkgs[path]
	if sp == nil {
		return []string{n}
	}
	set := map[string]bool{}
	for fn := range allFuncs(pp) {
		if fn.Pkg != sp || fn.Parent() != nil || fn.Synthetic != "" || fn.Blocks == nil {
			continue
		}
		if fileSel != "" && filepath.Base(p.Fset.Position(fn.Pos()).Filename) != fileSel {
			continue
		}
		if fn.Name() == "init" || strings.HasPrefix(fn.Name(), "init#") {
			continue
		}
		full := fullFuncName(fn)
		local := strings.TrimPrefix(full, path+".")
		if re.MatchString(local) {
			set[full] = true
		}
	}
	var out []string
	for k := range set {
		out = append(out, k)
	}
	sort.Strings(out)
	return out
}

// runExplain re-evaluates the property of a saved report against the current tree and says,
// for every violation of the report, whether it still occurs.
func runExplain(args []string) int {
	if len(args) != 1 {
		fmt.Println("usage: btcdlint explain <report.json>")
		return 2
	}
	b, err := os.ReadFile(args[0])
	if err != nil {
		fmt.Println(err)
		return 2
	}
	var rep struct {
		Property   string        `json:"property"`
		Violations []*Obligation `json:"violations"`
	}
	if err := json.Unmarshal(b, &rep); err != nil {
		fmt.Println(err)
		return 2
	}
	tmp, _ := os.MkdirTemp("", "btcdlint-explain-")
	defer os.RemoveAll(tmp)
	os.Setenv("VERIF_EVIDENCE_DIR", tmp)
	d := props[rep.Property]
	if d == nil {
		fmt.Println("unknown property", rep.Property)
		return 2
	}
	r := newReport(rep.Property, "quick")
	p, err := loadProgram(LoadOpts{})
	if err != nil {
		fmt.Println("load:", err)
		return 1
	}
	d.run(p, r)
	for _, f := range extras[rep.Property] {
		f(p, r)
	}
	now := map[string]*Obligation{}
	for _, o := range r.Obs {
		if !o.OK {
			now[o.Key()] = o
		}
	}
	still := 0
	for _, v := range rep.Violations {
		if o, ok := now[v.Key()]; ok {
			still++
			fmt.Printf("STILL VIOLATED  %s: %s: %s\n    %s\n", o.Pos, o.Rule, o.Construct, o.Detail)
		} else {
			fmt.Printf("no longer occurs  %s: %s\n", v.Rule, v.Construct)
		}
	}
	fmt.Printf("%d of %d reported violations reproduce on the current tree\n", still, len(rep.Violations))
	if still > 0 {
		return 1
	}
	return 0
}
