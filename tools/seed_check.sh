#!/bin/bash
# seed_check.sh <seed-dir-name> [props...] : apply a seeded change to /repo, run the checks, undo.
S=/verif/seeded/$1; shift
P=${@:-$(python3 -c "import json,sys;print(json.load(open('$S/meta.json'))['property'])")}
git -C /repo diff --quiet || { echo "/repo dirty"; exit 2; }
git -C /repo apply $S/patch.diff || exit 2
for p in $P; do
  out=$(/verif/bin/btcdlint check $p 2>&1); rc=$?
  echo "$(basename $S) vs $p: exit=$rc $(echo "$out" | grep -c -E '^[^ ]+: ') report lines"
  echo "$out" | grep -E '^[^ ]+:[0-9]+: |^-: ' | cut -c1-300 | head -${LINES_MAX:-6}
done
git -C /repo checkout -- .
