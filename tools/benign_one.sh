#!/bin/bash
# usage: tools/benign_one.sh <Cxx-n> [width]  — apply one benign patch, print what fires, restore
cd /verif
s=$1; w=${2:-400}
p=$(python3 -c "import json;print(json.load(open('benign/$s/meta.json'))['property'])")
git -C /repo diff --quiet || { echo "/repo dirty"; exit 2; }
git -C /repo apply /verif/benign/$s/patch.diff || exit 1
VERIF_EVIDENCE_DIR=/tmp/ev bin/btcdlint check $p 2>&1 | grep -vE "^property|^VIOLATION" | cut -c1-$w
git -C /repo checkout -- . ; git -C /repo clean -fdq
