#!/bin/bash
# Applies every stored behaviour-preserving patch (benign/<Cxx>-<n>/patch.diff) to /repo, runs the
# property's check, restores the tree, and writes benign/RESULTS.md. A check that fires here is a
# false alarm of the canonical form (or a documented limitation, e.g. helper extraction).
cd /verif
git -C /repo diff --quiet || { echo "/repo dirty"; exit 2; }
out=benign/RESULTS.md
{
echo "# Behaviour-preserving edits vs. the checks"
echo
echo "| patch | kind | silent | rule kinds that fired |"
echo "|---|---|---|---|"
for d in benign/C*-*/; do s=$(basename $d)
  [ -n "$1" ] && [[ ! "$s" =~ $1 ]] && continue
  p=$(python3 -c "import json;print(json.load(open('$d/meta.json'))['property'])")
  k=$(python3 -c "import json;print(json.load(open('$d/meta.json')).get('kind','')[:70].replace('|','/'))")
  git -C /repo apply /verif/$d/patch.diff || { echo "| $s | $k | PATCH DOES NOT APPLY | |"; continue; }
  o=$(VERIF_EVIDENCE_DIR=/tmp/ev bin/btcdlint check $p 2>&1); rc=$?   # evidence of a patched run never lands in evidence/
  git -C /repo checkout -- . ; git -C /repo clean -fdq
  kinds=$(echo "$o" | grep -E '^[^ ]+:[0-9]+: |^-: |^: ' | sed -E 's/^[^ ]*: ([a-z0-9/-]+):.*/\1/' | sort | uniq -c | sort -rn | awk '{printf "%s (%s), ", $2, $1}')
  sil=yes; [ $rc -ne 0 ] && sil=NO
  echo "| $s | $k | $sil | ${kinds%, } |"
done
} > $out
grep -c "| yes |" $out; grep -c "| NO |" $out
