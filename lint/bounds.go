package main

import (
	"fmt"
	"go/constant"
	"go/token"
	"go/types"
	"math/big"
	"sort"
	"strings"

	"golang.org/x/tools/go/ssa"
)

// E6 — untrusted-length analysis as an upper-bound (interval) computation.
// ub(v, at) is a sound upper bound of integer value v at block `at`:
// constants by value, narrowing by type width, arithmetic on bounds, len/cap of
// an existing buffer ("proportional"), parameters by the maximum over all call
// sites (closed world over the btcd modules), struct fields by the maximum over
// all stores, call results by the maximum over the callee's returns, refined by
// every branch edge that dominates `at` and compares the value with a bounded
// quantity. Anything else is unbounded (type maximum).

type bound struct {
	n   *big.Int // nil = unbounded
	len bool     // bounded by the length/capacity of an existing buffer (or sum of such)
	cyc bool     // placeholder for a loop-carried value that is being evaluated
}

var two = big.NewInt(2)

func unb() bound             { return bound{} }
func cst(x *big.Int) bound   { return bound{n: x} }
func (b bound) ok() bool     { return !b.cyc && (b.n != nil || b.len) }
func (b bound) String() string {
	switch {
	case b.n != nil && b.len:
		return "len+" + b.n.String()
	case b.len:
		return "≤len(buffer)"
	case b.n != nil:
		return "≤" + b.n.String()
	}
	return "unbounded"
}

func bmax(a, b bound) bound {
	if a.cyc {
		return b
	}
	if b.cyc {
		return a
	}
	if !a.ok() || !b.ok() {
		return unb()
	}
	r := bound{len: a.len || b.len}
	switch {
	case a.n != nil && b.n != nil:
		if a.n.Cmp(b.n) >= 0 {
			r.n = a.n
		} else {
			r.n = b.n
		}
	case a.n != nil:
		r.n = a.n
	case b.n != nil:
		r.n = b.n
	}
	return r
}

func bmin(a, b bound) bound {
	if !a.ok() {
		return b
	}
	if !b.ok() {
		return a
	}
	// prefer a numeric bound; a numeric one together with a len one: keep the numeric
	if a.n != nil && b.n != nil {
		if a.n.Cmp(b.n) <= 0 {
			return bound{n: a.n}
		}
		return bound{n: b.n}
	}
	if a.n != nil && !a.len {
		return a
	}
	if b.n != nil && !b.len {
		return b
	}
	return a
}

func badd(a, b bound) bound {
	if !a.ok() || !b.ok() {
		return unb()
	}
	r := bound{len: a.len || b.len}
	x, y := a.n, b.n
	if x == nil {
		x = big.NewInt(0)
	}
	if y == nil {
		y = big.NewInt(0)
	}
	r.n = new(big.Int).Add(x, y)
	return r
}

func typeMax(t types.Type) bound {
	bt, ok := t.Underlying().(*types.Basic)
	if !ok {
		return unb()
	}
	bits := 0
	signed := false
	switch bt.Kind() {
	case types.Uint8:
		bits = 8
	case types.Uint16:
		bits = 16
	case types.Int8:
		bits, signed = 8, true
	case types.Int16:
		bits, signed = 16, true
	default:
		return unb() // 32 and 64 bit values are not a useful bound for an allocation
	}
	if signed {
		bits--
	}
	return cst(new(big.Int).Sub(new(big.Int).Lsh(big.NewInt(1), uint(bits)), big.NewInt(1)))
}

type boundsAnalysis struct {
	p        *Program
	funcs    map[*ssa.Function]bool
	callers  map[*ssa.Function][]ssa.CallInstruction
	fieldUB  map[*types.Var]*bound
	retMemo  map[*ssa.Function]*bound
	paramMemo map[*ssa.Parameter]*bound
	inprog   map[interface{}]bool
	facts    map[*ssa.Function]*FuncFacts
	exported map[*ssa.Function]bool
}

func newBoundsAnalysis(p *Program) *boundsAnalysis {
	ba := &boundsAnalysis{p: p, funcs: allFuncs(p), callers: map[*ssa.Function][]ssa.CallInstruction{},
		fieldUB: map[*types.Var]*bound{}, retMemo: map[*ssa.Function]*bound{}, paramMemo: map[*ssa.Parameter]*bound{},
		inprog: map[interface{}]bool{}, facts: map[*ssa.Function]*FuncFacts{}}
	for fn := range ba.funcs {
		if fn.Blocks == nil {
			continue
		}
		for _, b := range fn.Blocks {
			for _, in := range b.Instrs {
				if ci, ok := in.(ssa.CallInstruction); ok {
					if t := ci.Common().StaticCallee(); t != nil {
						ba.callers[t] = append(ba.callers[t], ci)
					}
				}
			}
		}
	}
	return ba
}

func (ba *boundsAnalysis) factsOf(fn *ssa.Function) *FuncFacts {
	if f, ok := ba.facts[fn]; ok {
		return f
	}
	f := ba.p.facts(fn, defaultRejectMode(fn))
	ba.facts[fn] = f
	return f
}

func sameVal(a, b ssa.Value) bool {
	return stripConv(a) == stripConv(b)
}

// refineEdge: if edge (d -> d.Succs[k]) is taken and its condition bounds v from above, narrow base.
func (ba *boundsAnalysis) refineEdge(v ssa.Value, d *ssa.BasicBlock, k int, base bound, depth int) bound {
	if len(d.Instrs) == 0 {
		return base
	}
	iff, ok := d.Instrs[len(d.Instrs)-1].(*ssa.If)
	if !ok {
		return base
	}
	cmp, ok := iff.Cond.(*ssa.BinOp)
	if !ok || !isCmp(cmp.Op) {
		return base
	}
	op := cmp.Op
	if k == 1 {
		op = negOp(op)
	}
	var other ssa.Value
	if sameVal(cmp.X, v) {
		other = cmp.Y
	} else if sameVal(cmp.Y, v) {
		other = cmp.X
		op = mirrorOp(op)
	} else {
		return base
	}
	switch op {
	case token.LSS, token.LEQ, token.EQL:
		ob := ba.ub(other, d, depth+1)
		if ob.ok() {
			base = bmin(base, ob)
		}
	}
	return base
}

// ub computes the upper bound of v as seen at block `at` (nil: no refinement).
func (ba *boundsAnalysis) ub(v ssa.Value, at *ssa.BasicBlock, depth int) bound {
	if depth > 14 {
		return unb()
	}
	base := ba.ubBase(v, at, depth)
	if at == nil {
		return base
	}
	// refinement by dominating branch edges
	fn := at.Parent()
	for _, d := range fn.Blocks {
		if len(d.Instrs) == 0 {
			continue
		}
		iff, ok := d.Instrs[len(d.Instrs)-1].(*ssa.If)
		if !ok {
			continue
		}
		cmp, ok := iff.Cond.(*ssa.BinOp)
		if !ok || !isCmp(cmp.Op) {
			continue
		}
		for k := 0; k < 2; k++ {
			if !edgeDominates(d, k, at) {
				continue
			}
			op := cmp.Op
			if k == 1 {
				op = negOp(op)
			}
			var other ssa.Value
			if sameVal(cmp.X, v) {
				other = cmp.Y
			} else if sameVal(cmp.Y, v) {
				other = cmp.X
				op = mirrorOp(op)
			} else {
				continue
			}
			// now: v op other holds
			switch op {
			case token.LSS, token.LEQ, token.EQL:
				ob := ba.ub(other, d, depth+1)
				if ob.ok() {
					base = bmin(base, ob)
				}
			}
		}
	}
	return base
}

func (ba *boundsAnalysis) ubBase(v ssa.Value, at *ssa.BasicBlock, depth int) bound {
	switch x := v.(type) {
	case *ssa.Const:
		if x.Value != nil && x.Value.Kind() == constant.Int {
			if b, ok := new(big.Int).SetString(x.Value.ExactString(), 10); ok {
				return cst(b)
			}
		}
		return unb()
	case *ssa.Convert:
		in := ba.ub(x.X, at, depth+1)
		if in.cyc {
			if tm := typeMax(x.Type()); tm.ok() {
				return tm
			}
			return in
		}
		return bmin(in, typeMax(x.Type()))
	case *ssa.ChangeType:
		return ba.ub(x.X, at, depth+1)
	case *ssa.BinOp:
		a, b := ba.ub(x.X, at, depth+1), ba.ub(x.Y, at, depth+1)
		if a.cyc || b.cyc {
			// arithmetic on a loop-carried value: an accumulator. Only operations that cannot
			// grow their operand keep a bound, and then only from the other operand.
			switch x.Op {
			case token.ADD:
				// running total of lengths of existing buffers / object sizes
				if a.cyc && b.len && b.n == nil || b.cyc && a.len && a.n == nil {
					return bound{len: true}
				}
			case token.AND:
				if a.cyc {
					return b
				}
				return a
			case token.REM:
				if !b.cyc && b.n != nil && !b.len {
					return b
				}
			}
			return unb()
		}
		switch x.Op {
		case token.ADD, token.OR, token.XOR:
			return badd(a, b)
		case token.SUB:
			return a
		case token.MUL:
			if a.n != nil && b.n != nil && !a.len && !b.len {
				return cst(new(big.Int).Mul(a.n, b.n))
			}
			// len * small constant stays proportional
			if (a.len && b.n != nil && !b.len && b.n.Cmp(big.NewInt(64)) <= 0) || (b.len && a.n != nil && !a.len && a.n.Cmp(big.NewInt(64)) <= 0) {
				return bound{len: true}
			}
			return unb()
		case token.QUO, token.SHR:
			return a
		case token.REM:
			if b.n != nil && !b.len {
				return b
			}
			return a
		case token.AND:
			return bmin(a, b)
		case token.SHL:
			if a.n != nil && !a.len && b.n != nil && !b.len && b.n.IsInt64() && b.n.Int64() < 64 {
				return cst(new(big.Int).Lsh(a.n, uint(b.n.Int64())))
			}
			return unb()
		}
		return unb()
	case *ssa.Phi:
		key := interface{}(x)
		if ba.inprog[key] {
			return bound{cyc: true} // loop-carried: unchanged if returned as is, unbounded under arithmetic
		}
		ba.inprog[key] = true
		defer delete(ba.inprog, key)
		r := bound{cyc: true}
		for i, e := range x.Edges {
			// a loop-carried increment makes the value unbounded unless the loop condition bounds it,
			// which is visible as a refinement at the use site; evaluate the edge at its predecessor.
			pred := x.Block().Preds[i]
			eb := ba.ub(e, pred, depth+1)
			for k, sc := range pred.Succs {
				if sc == x.Block() && len(pred.Succs) == 2 && pred.Succs[0] != pred.Succs[1] {
					eb = ba.refineEdge(e, pred, k, eb, depth+1)
				}
			}
			r = bmax(r, eb)
			if !r.ok() && !r.cyc {
				return unb()
			}
		}
		return r
	case *ssa.Call:
		cc := x.Common()
		if bi, ok := cc.Value.(*ssa.Builtin); ok {
			switch bi.Name() {
			case "len", "cap":
				if k, ok := cc.Args[0].Type().Underlying().(*types.Array); ok {
					return cst(big.NewInt(k.Len()))
				}
				if pt, ok := cc.Args[0].Type().Underlying().(*types.Pointer); ok {
					if k, ok := pt.Elem().Underlying().(*types.Array); ok {
						return cst(big.NewInt(k.Len()))
					}
				}
				return bound{len: true}
			case "min":
				r := unb()
				for _, a := range cc.Args {
					r = bmin(r, ba.ub(a, at, depth+1))
				}
				return r
			case "copy":
				return bound{len: true}
			}
			return unb()
		}
		if callee := cc.StaticCallee(); callee != nil {
			return bmin(ba.retUB(callee, 0, depth+1), typeMax(x.Type()))
		}
		return typeMax(x.Type())
	case *ssa.Extract:
		if call, ok := x.Tuple.(*ssa.Call); ok {
			if callee := call.Common().StaticCallee(); callee != nil {
				return bmin(ba.retUB(callee, x.Index, depth+1), typeMax(x.Type()))
			}
		}
		return typeMax(x.Type())
	case *ssa.Parameter:
		return bmin(ba.paramUB(x, depth+1), typeMax(x.Type()))
	case *ssa.UnOp:
		if x.Op == token.MUL {
			switch a := x.X.(type) {
			case *ssa.FieldAddr:
				return bmin(ba.fieldBound(fieldVarOf(a), depth+1), typeMax(x.Type()))
			case *ssa.Global:
				return bmin(ba.globalBound(a, depth+1), typeMax(x.Type()))
			case *ssa.Alloc:
				// local whose address is taken: bounded only if every store is bounded and the
				// address is never passed to a call (a filler such as readElement)
				r := bound{n: big.NewInt(0)}
				for _, ref := range *a.Referrers() {
					switch s := ref.(type) {
					case *ssa.Store:
						if s.Addr == ssa.Value(a) {
							r = bmax(r, ba.ub(s.Val, s.Block(), depth+1))
						}
					case *ssa.UnOp:
					case *ssa.DebugRef:
					default:
						return typeMax(x.Type())
					}
				}
				return bmin(r, typeMax(x.Type()))
			}
			return typeMax(x.Type())
		}
		return typeMax(x.Type())
	case *ssa.Field:
		st := x.X.Type().Underlying().(*types.Struct)
		return bmin(ba.fieldBound(st.Field(x.Field), depth+1), typeMax(x.Type()))
	}
	return typeMax(v.Type())
}

// globalBound: package-level variable: maximum over every store in the program; unbounded if its
// address is used for anything but loads and stores.
func (ba *boundsAnalysis) globalBound(g *ssa.Global, depth int) bound {
	if ba.inprog[g] {
		return bound{n: big.NewInt(0)}
	}
	ba.inprog[g] = true
	defer delete(ba.inprog, g)
	r := bound{n: big.NewInt(0)}
	n := 0
	for fn := range ba.funcs {
		if fn.Blocks == nil {
			continue
		}
		for _, b := range fn.Blocks {
			for _, in := range b.Instrs {
				var ops []*ssa.Value
				for _, op := range in.Operands(ops) {
					if *op != ssa.Value(g) {
						continue
					}
					switch x := in.(type) {
					case *ssa.Store:
						if x.Addr == ssa.Value(g) {
							n++
							r = bmax(r, ba.ub(x.Val, b, depth+1))
						} else {
							return unb()
						}
					case *ssa.UnOp:
					default:
						return unb()
					}
				}
			}
		}
	}
	if n == 0 {
		return unb()
	}
	return r
}

// objectSize: results of these functions are the size of an object that is already in memory.
func objectSizeFunc(fn *ssa.Function) bool {
	n := fn.Name()
	switch n {
	case "compressedTxOutSize", "compressedScriptSize", "serializeSizeVLQ", "baseSize", "MaxPayloadLength":
		return true
	}
	return strings.HasPrefix(n, "SerializeSize") || strings.HasSuffix(n, "SerializeSize")
}

// retUB: upper bound of result #idx of fn over all its returns.
func (ba *boundsAnalysis) retUB(fn *ssa.Function, idx int, depth int) bound {
	if objectSizeFunc(fn) {
		return bound{len: true}
	}
	if fn.Blocks == nil {
		switch fn.String() {
		case "bytes.IndexByte", "strings.IndexByte", "strings.LastIndexByte", "(*bytes.Buffer).Len", "(*bytes.Reader).Len", "strings.Index", "bytes.Index":
			return bound{len: true}
		}
		return unb()
	}
	if idx == 0 {
		if m, ok := ba.retMemo[fn]; ok {
			return *m
		}
	}
	key := [2]interface{}{fn, idx}
	if ba.inprog[key] {
		return unb()
	}
	ba.inprog[key] = true
	defer delete(ba.inprog, key)
	r := bound{n: big.NewInt(0)}
	n := 0
	for _, b := range fn.Blocks {
		ret, ok := b.Instrs[len(b.Instrs)-1].(*ssa.Return)
		if !ok || b == fn.Recover || idx >= len(ret.Results) {
			continue
		}
		n++
		r = bmax(r, ba.ub(unspill(ret.Results[idx], b), b, depth+1))
		if !r.ok() {
			break
		}
	}
	if n == 0 {
		r = unb()
	}
	if idx == 0 {
		rr := r
		ba.retMemo[fn] = &rr
	}
	return r
}

// paramUB: maximum over all call sites in the btcd modules (closed world). Functions whose
// address is taken or that are methods reachable through interfaces are unbounded.
func (ba *boundsAnalysis) paramUB(prm *ssa.Parameter, depth int) bound {
	if m, ok := ba.paramMemo[prm]; ok {
		return *m
	}
	if ba.inprog[prm] {
		return bound{n: big.NewInt(0)}
	}
	ba.inprog[prm] = true
	defer delete(ba.inprog, prm)
	fn := prm.Parent()
	idx := -1
	for i, q := range fn.Params {
		if q == prm {
			idx = i
		}
	}
	sites := ba.callers[fn]
	r := bound{n: big.NewInt(0)}
	if len(sites) == 0 || idx < 0 {
		r = unb()
	}
	for _, s := range sites {
		args := s.Common().Args
		if idx >= len(args) {
			r = unb()
			break
		}
		r = bmax(r, ba.ub(args[idx], s.Block(), depth+1))
		if !r.ok() {
			break
		}
	}
	rr := r
	ba.paramMemo[prm] = &rr
	return r
}

func (ba *boundsAnalysis) fieldBound(fv *types.Var, depth int) bound {
	if m, ok := ba.fieldUB[fv]; ok {
		return *m
	}
	if ba.inprog[fv] {
		return bound{n: big.NewInt(0)}
	}
	ba.inprog[fv] = true
	defer delete(ba.inprog, fv)
	r := bound{n: big.NewInt(0)}
	nStores := 0
	pp := ba.p
	for _, a := range pp.fieldAccesses(fv) {
		if !a.write {
			continue
		}
		st, ok := a.ins.(*ssa.Store)
		if !ok || a.how != "store" {
			r = unb()
			break
		}
		nStores++
		r = bmax(r, ba.ub(st.Val, st.Block(), depth+1))
		if !r.ok() {
			break
		}
	}
	if nStores == 0 {
		r = unb()
	}
	rr := r
	ba.fieldUB[fv] = &rr
	return r
}

const allocLimit = 1 << 26 // 64 Mi elements: twice the largest protocol message

// ruleAllocBounds: in the given functions every make() size (and map reserve) has an
// upper bound ≤ allocLimit or proportional to an existing buffer.
func ruleAllocBounds(p *Program, r *Report, sel func(fn *ssa.Function) bool, scopeName string) {
	ba := newBoundsAnalysis(p)
	lim := big.NewInt(allocLimit)
	var fns []*ssa.Function
	for fn := range allFuncs(p) {
		if fn.Blocks != nil && sel(fn) {
			fns = append(fns, fn)
		}
	}
	sort.Slice(fns, func(i, j int) bool { return fullFuncName(fns[i]) < fullFuncName(fns[j]) })
	r.Analysed["alloc_scope_functions/"+scopeName] = len(fns)
	for _, fn := range fns {
		c := newCanon(p, fn)
		n := 0
		for _, b := range fn.Blocks {
			for _, in := range b.Instrs {
				var sizes []ssa.Value
				what := ""
				switch x := in.(type) {
				case *ssa.MakeSlice:
					sizes = []ssa.Value{x.Len, x.Cap}
					what = "make(" + short(x.Type().String()) + ")"
				case *ssa.MakeMap:
					if x.Reserve != nil {
						sizes = []ssa.Value{x.Reserve}
						what = "make(" + short(x.Type().String()) + ")"
					}
				}
				for _, sz := range sizes {
					if _, isConst := sz.(*ssa.Const); isConst {
						continue
					}
					n++
					ub := ba.ub(sz, b, 0)
					cons := fmt.Sprintf("%s :: %s size %s #%d", short(fullFuncName(fn)), what, c.term(sz), n)
					if ub.len && ub.n == nil || (ub.n != nil && ub.n.Cmp(lim) <= 0) {
						r.pass("alloc-bound", cons, p.pos(in.Pos()), ub.String())
					} else {
						r.fail("alloc-bound", cons, p.pos(in.Pos()), "allocation size has no static upper bound ≤ "+lim.String()+" (computed: "+ub.String()+")")
					}
				}
			}
		}
	}
}

// ruleSignedConv: a value that reaches a slice bound, index or make size through a conversion
// from a 64-bit unsigned integer to a signed one must be known to fit (upper bound < 2^63 at the
// conversion) or be tested against a lower bound on every path to the use.
func ruleSignedConv(p *Program, r *Report, sel func(fn *ssa.Function) bool) {
	ba := newBoundsAnalysis(p)
	maxI := new(big.Int).Sub(new(big.Int).Lsh(big.NewInt(1), 63), big.NewInt(1))
	var fns []*ssa.Function
	for fn := range allFuncs(p) {
		if fn.Blocks != nil && sel(fn) {
			fns = append(fns, fn)
		}
	}
	sort.Slice(fns, func(i, j int) bool { return fullFuncName(fns[i]) < fullFuncName(fns[j]) })
	for _, fn := range fns {
		c := newCanon(p, fn)
		for _, b := range fn.Blocks {
			for _, in := range b.Instrs {
				cv, ok := in.(*ssa.Convert)
				if !ok {
					continue
				}
				from, ok1 := cv.X.Type().Underlying().(*types.Basic)
				to, ok2 := cv.Type().Underlying().(*types.Basic)
				if !ok1 || !ok2 || from.Kind() != types.Uint64 && from.Kind() != types.Uint && from.Kind() != types.Uintptr {
					continue
				}
				if to.Kind() != types.Int && to.Kind() != types.Int64 {
					continue
				}
				uses := ba.signedUsesInter(cv, 0)
				if len(uses) == 0 {
					continue
				}
				ub := ba.ub(cv.X, b, 0)
				cons := fmt.Sprintf("%s :: %s", short(fullFuncName(fn)), c.term(cv)+" ← "+short(cv.X.Type().String()))
				if ub.len && ub.n == nil || (ub.n != nil && ub.n.Cmp(maxI) <= 0) {
					r.pass("signed-conv", cons, p.pos(cv.Pos()), "value fits: "+ub.String())
					continue
				}
				// every use must be dominated by a lower-bound test of the converted value
				bad := ""
				for _, u := range uses {
					if !lowerBounded(u.val, u.ins.Block()) {
						bad = p.pos(u.ins.Pos()) + " in " + short(fullFuncName(u.ins.Parent()))
						break
					}
				}
				if bad == "" {
					r.pass("signed-conv", cons, p.pos(cv.Pos()), "every use is behind a `< 0` test")
				} else {
					r.fail("signed-conv", cons, p.pos(cv.Pos()), "unsigned 64-bit value converted to a signed integer may be negative and is used as a bound/size at "+bad+" without a lower-bound test")
				}
			}
		}
	}
}

type signedUse struct {
	val ssa.Value // the (possibly negative) value as it is known in the using function
	ins ssa.Instruction
}

// signedUsesInter follows the value through returns into the callers (bounded depth).
func (ba *boundsAnalysis) signedUsesInter(v ssa.Value, depth int) []signedUse {
	var out []signedUse
	var fn *ssa.Function
	if in, ok := v.(ssa.Instruction); ok {
		fn = in.Parent()
	}
	for _, u := range signedUses(v, fn, 0) {
		ret, isRet := u.(*ssa.Return)
		if !isRet {
			out = append(out, signedUse{v, u})
			continue
		}
		if depth > 3 || fn == nil {
			continue
		}
		if lowerBounded(v, ret.Block()) {
			continue // the callee only returns it after testing it
		}
		// which result index carries it
		for idx, res := range ret.Results {
			if !reaches(v, res) {
				continue
			}
			for _, site := range ba.callers[fn] {
				call, ok := site.(*ssa.Call)
				if !ok {
					continue
				}
				var rv ssa.Value = call
				if len(ret.Results) > 1 {
					rv = nil
					for _, ref := range *call.Referrers() {
						if ex, ok := ref.(*ssa.Extract); ok && ex.Index == idx {
							rv = ex
						}
					}
				}
				if rv != nil {
					out = append(out, ba.signedUsesInter(rv, depth+1)...)
				}
			}
		}
	}
	return out
}

// reaches: res is v or derived from it by +,-,phi,convert.
func reaches(v, res ssa.Value) bool {
	seen := map[ssa.Value]bool{}
	var rec func(x ssa.Value) bool
	rec = func(x ssa.Value) bool {
		if x == v {
			return true
		}
		if seen[x] {
			return false
		}
		seen[x] = true
		switch y := x.(type) {
		case *ssa.BinOp:
			return rec(y.X) || rec(y.Y)
		case *ssa.Phi:
			for _, e := range y.Edges {
				if rec(e) {
					return true
				}
			}
		case *ssa.Convert:
			return rec(y.X)
		}
		return false
	}
	return rec(res)
}

// signedUses: instructions that use v (through arithmetic) as slice bound, index or make size;
// a value that is returned is followed into the callers.
func signedUses(v ssa.Value, fn *ssa.Function, depth int) []ssa.Instruction {
	var out []ssa.Instruction
	seen := map[ssa.Value]bool{}
	var walk func(x ssa.Value)
	walk = func(x ssa.Value) {
		if seen[x] {
			return
		}
		seen[x] = true
		for _, ref := range *x.Referrers() {
			switch u := ref.(type) {
			case *ssa.Slice:
				if u.Low == x || u.High == x || u.Max == x {
					out = append(out, u)
				}
			case *ssa.IndexAddr:
				if u.Index == x {
					out = append(out, u)
				}
			case *ssa.Index:
				if u.Index == x {
					out = append(out, u)
				}
			case *ssa.MakeSlice:
				out = append(out, u)
			case *ssa.BinOp:
				if u.Op == token.ADD || u.Op == token.SUB {
					walk(u)
				}
			case *ssa.Phi:
				walk(u)
			case *ssa.Convert:
				walk(u)
			case *ssa.Return:
				out = append(out, u)
			}
		}
	}
	walk(v)
	return out
}

// lowerBounded: block at is dominated by an edge on which conv >= 0 (or conv > k, k>=0) holds.
func lowerBounded(v ssa.Value, at *ssa.BasicBlock) bool {
	fn := at.Parent()
	for _, d := range fn.Blocks {
		if len(d.Instrs) == 0 {
			continue
		}
		iff, ok := d.Instrs[len(d.Instrs)-1].(*ssa.If)
		if !ok {
			continue
		}
		cmp, ok := iff.Cond.(*ssa.BinOp)
		if !ok || !isCmp(cmp.Op) {
			continue
		}
		for k := 0; k < 2; k++ {
			if !edgeDominates(d, k, at) {
				continue
			}
			op := cmp.Op
			if k == 1 {
				op = negOp(op)
			}
			var other ssa.Value
			if cmp.X == v {
				other = cmp.Y
			} else if cmp.Y == v {
				other = cmp.X
				op = mirrorOp(op)
			} else {
				continue
			}
			if kk, ok := intConst(other); ok && kk.Sign() >= 0 {
				if op == token.GEQ || op == token.GTR || op == token.EQL {
					return true
				}
			}
		}
	}
	return false
}

func inFiles(p *Program, pkg string, files ...string) func(fn *ssa.Function) bool {
	return func(fn *ssa.Function) bool {
		if fn.Pkg == nil || fn.Pkg.Pkg.Path() != pkg {
			return false
		}
		if len(files) == 0 {
			return true
		}
		base := p.Fset.Position(fn.Pos()).Filename
		for _, f := range files {
			if strings.HasSuffix(base, "/"+f) {
				return true
			}
		}
		return false
	}
}

// ruleCursorAdvance: a loop-carried integer that is used as the low bound of a slice of a byte
// buffer inside the loop (a read cursor) must be advanced on every path around the loop: a back
// edge that carries the cursor unchanged makes the next element be cut from the previous
// element's position.
func ruleCursorAdvance(p *Program, r *Report, sel func(fn *ssa.Function) bool) {
	var fns []*ssa.Function
	for fn := range allFuncs(p) {
		if fn.Blocks != nil && sel(fn) {
			fns = append(fns, fn)
		}
	}
	sort.Slice(fns, func(i, j int) bool { return fullFuncName(fns[i]) < fullFuncName(fns[j]) })
	n := 0
	for _, fn := range fns {
		f := p.facts(fn, defaultRejectMode(fn))
		for _, b := range fn.Blocks {
			body, isHeader := f.loops[b]
			if !isHeader {
				continue
			}
			for _, in := range b.Instrs {
				ph, ok := in.(*ssa.Phi)
				if !ok {
					break
				}
				if bt, ok := ph.Type().Underlying().(*types.Basic); !ok || bt.Info()&types.IsInteger == 0 {
					continue
				}
				// used as Low of a Slice of []byte inside the loop?
				var use *ssa.Slice
				for _, ref := range *ph.Referrers() {
					if sl, ok := ref.(*ssa.Slice); ok && sl.Low == ssa.Value(ph) && body[sl.Block()] {
						if st, ok := sl.X.Type().Underlying().(*types.Slice); ok {
							if eb, ok := st.Elem().Underlying().(*types.Basic); ok && eb.Kind() == types.Uint8 {
								use = sl
							}
						}
					}
				}
				if use == nil {
					continue
				}
				// does the cursor change at all in the loop (is it a cursor)?
				changes, stale := false, false
				for i, e := range ph.Edges {
					if !body[b.Preds[i]] {
						continue
					}
					if e == ssa.Value(ph) {
						stale = true
					} else {
						changes = true
					}
				}
				if !changes {
					continue
				}
				n++
				c := f.c
				cons := fmt.Sprintf("%s :: cursor %s into %s", short(fullFuncName(fn)), c.term(ph), c.term(use.X))
				if stale {
					r.fail("cursor-advance", cons, p.pos(use.Pos()), "some path around the loop leaves the read cursor unchanged, so the next element is sliced from the previous element's offset")
				} else {
					r.pass("cursor-advance", cons, p.pos(use.Pos()), "advanced on every path around the loop")
				}
			}
		}
	}
	r.Analysed["cursor_loops"] += n
}
