package main

import (
	"fmt"
	"go/token"
	"go/types"
	"sort"
	"strings"

	"golang.org/x/tools/go/ssa"
)

// Event is a side-effecting construct of a function: a call, go, defer, store
// to a field/element/global, map update, delete, close or channel send.
type Event struct {
	Pure bool   // call of a function without visible side effects (not tracked by "*")
	Kind string // call, go, defer, store, mapset, delete, close, send
	Name string // resolved callee / canonical l-value
	Args string // canonical arguments / stored value
	blk  *ssa.BasicBlock
	idx  int
	ins  ssa.Instruction
	Pos  token.Pos
	// spliced in from an unreviewed helper called at (blk, idx): the helper's own event and facts
	inner *Event
	inl   *FuncFacts
}

func (e *Event) Head() string { return e.Kind + ":" + e.Name }
func (e *Event) Full() string {
	if e.Kind == "store" || e.Kind == "mapset" {
		return e.Head() + " = " + e.Args
	}
	return e.Head() + " <- (" + e.Args + ")"
}

func (f *FuncFacts) Events() []*Event {
	if f.events != nil {
		return f.events
	}
	var out []*Event
	for _, b := range f.fn.Blocks {
		for i, in := range b.Instrs {
			var e *Event
			switch x := in.(type) {
			case *ssa.Call:
				if hf := f.c.inlined(x.Common()); hf != nil {
					for _, ie := range hf.Events() {
						out = append(out, &Event{Pure: ie.Pure, Kind: ie.Kind, Name: ie.Name, Args: ie.Args,
							blk: b, idx: i, ins: in, Pos: ie.Pos, inner: ie, inl: hf})
					}
					continue
				}
				e = f.callEvent("call", x.Common())
			case *ssa.Go:
				e = f.callEvent("go", x.Common())
			case *ssa.Defer:
				e = f.callEvent("defer", x.Common())
			case *ssa.Store:
				switch x.Addr.(type) {
				case *ssa.FieldAddr, *ssa.IndexAddr, *ssa.Global:
					if localAddr(x.Addr) {
						break
					}
					name := f.c.term(x.Addr)
					name = strings.TrimPrefix(name, "&")
					e = &Event{Kind: "store", Name: name, Args: f.c.term(x.Val)}
				}
			case *ssa.MapUpdate:
				e = &Event{Kind: "mapset", Name: f.c.term(x.Map) + "[" + f.c.term(x.Key) + "]", Args: f.c.term(x.Value)}
			case *ssa.Send:
				e = &Event{Kind: "send", Name: f.c.term(x.Chan), Args: f.c.term(x.X)}
			}
			if e == nil {
				continue
			}
			e.blk, e.idx, e.ins, e.Pos = b, i, in, in.Pos()
			if !e.Pos.IsValid() {
				e.Pos = f.blockPos(b)
			}
			out = append(out, e)
		}
	}
	f.events = out
	return out
}

func (f *FuncFacts) callEvent(kind string, cc *ssa.CallCommon) *Event {
	name := f.c.calleeName(cc)
	var args []string
	if cc.IsInvoke() {
		args = append(args, f.c.term(cc.Value))
	}
	for i := range cc.Args {
		args = append(args, f.c.argTerm(cc, i, 0))
	}
	if bi, ok := cc.Value.(*ssa.Builtin); ok {
		switch bi.Name() {
		case "delete":
			return &Event{Kind: "delete", Name: f.c.term(cc.Args[0]) + "[" + f.c.term(cc.Args[1]) + "]"}
		case "close":
			return &Event{Kind: "close", Name: f.c.term(cc.Args[0])}
		case "len", "cap", "append", "copy", "print", "println", "min", "max", "panic", "recover", "new", "make", "ssa:wrapnilchk", "clear":
			if bi.Name() != "copy" && bi.Name() != "clear" {
				return nil
			}
		}
	}
	if acq, _, ok := syncLockOp(name); ok && !acq && (kind == "call" || kind == "defer") && len(args) > 0 {
		// releasing a mutex: that it happens on every exit is decided by the lock-balance rule
		// (balance.go); whether it is written as a defer or before each return is layout
		return &Event{Kind: "release", Name: name[strings.LastIndex(name, ".")+1:] + " " + args[0]}
	}
	ev := &Event{Kind: kind, Name: name, Args: strings.Join(args, ",")}
	if kind == "call" {
		if isObserver(name) {
			ev.Pure = true
		} else if callee := cc.StaticCallee(); callee != nil {
			ev.Pure = isPure(callee) || isNoiseCallee(callee.String())
		} else if cc.IsInvoke() && isNoiseCallee("("+cc.Value.Type().String()+").") {
			ev.Pure = true
		}
	}
	return ev
}

// evDominates: event a is executed before b on every path reaching b.
func evDominates(a, b *Event) bool {
	if a.blk == b.blk && a.idx == b.idx && a.inner != nil && b.inner != nil && a.inl == b.inl {
		return evDominates(a.inner, b.inner) // both inside the same helper call
	}
	if !innerAlways(a) {
		return false // a happens only on some ways through the helper it sits in
	}
	if a.blk == b.blk {
		return a.idx < b.idx
	}
	return a.blk.Dominates(b.blk)
}

// evCanFollow: event a can execute after event b.
func evCanFollow(a, b *Event) bool {
	if a.blk == b.blk && a.idx == b.idx && a.inner != nil && b.inner != nil && a.inl == b.inl {
		return evCanFollow(a.inner, b.inner)
	}
	if a.blk == b.blk && a.idx > b.idx {
		return true
	}
	seen := map[*ssa.BasicBlock]bool{}
	stack := append([]*ssa.BasicBlock{}, b.blk.Succs...)
	for len(stack) > 0 {
		x := stack[len(stack)-1]
		stack = stack[:len(stack)-1]
		if seen[x] {
			continue
		}
		seen[x] = true
		stack = append(stack, x.Succs...)
	}
	return seen[a.blk]
}

// matchEvents: events whose Head equals sel, or whose Full has sel as prefix.
func (f *FuncFacts) matchEvents(sel string) []*Event {
	var out []*Event
	if strings.HasPrefix(sel, "guard:") {
		want := sel[6:]
		for _, g := range f.Guards() {
			if strings.Contains(g.Code, want) || strings.Contains(g.Key(), want) {
				out = append(out, &Event{Kind: "guard", Name: g.Code, blk: g.blk, idx: len(g.blk.Instrs) - 1, Pos: g.Pos})
			}
		}
		return out
	}
	for _, e := range f.Events() {
		if e.Head() == sel || e.Full() == sel || ((strings.Contains(sel, " <- (") || strings.Contains(sel, " = ")) && strings.HasPrefix(e.Full(), sel)) {
			out = append(out, e)
		}
	}
	return out
}

// eventContext renders the branch conditions needed to reach the event.
func (f *FuncFacts) eventContext(e *Event) []string {
	rejEdge, _ := f.rejEdges()
	// context of the block, plus (if the block itself ends in a guard) nothing more
	ctx := f.context(e.blk, rejEdge)
	var atoms []string
	for _, c := range ctx {
		atoms = append(atoms, c.atom)
	}
	if e.inner != nil {
		for _, a := range e.inl.eventContext(e.inner) {
			if a != "always" {
				atoms = append(atoms, a)
			}
		}
	}
	atoms = simplifyAtoms(atoms)
	if len(atoms) == 0 {
		atoms = []string{"always"}
	}
	return atoms
}

// mustPass: with every block holding one of the events removed, and the edges
// whose condition is one of the `unless` atoms cut, no non-failing return may be
// reachable from entry.
func (f *FuncFacts) mustPass(evs []*Event, unless []string) string {
	removed := map[*ssa.BasicBlock]bool{}
	for _, e := range evs {
		if innerAlways(e) {
			removed[e.blk] = true
		}
	}
	cut := map[[2]int]bool{}
	if len(unless) > 0 {
		for _, b := range f.fn.Blocks {
			iff := f.ifOf(b)
			if iff == nil {
				continue
			}
			for k := 0; k < 2; k++ {
				a := f.c.condAtom(iff.Cond, k == 0)
				for _, u := range unless {
					if a == u {
						cut[[2]int{b.Index, k}] = true
					}
				}
			}
		}
	}
	if removed[f.fn.Blocks[0]] {
		return ""
	}
	for _, r := range f.reachRets(f.fn.Blocks[0], removed, cut) {
		if r.kind != retFail {
			return fmt.Sprintf("non-failing return at %s is reachable without passing the event", f.p.pos(f.retPos(r)))
		}
	}
	return ""
}

// ---- whole-program helpers (E4) -------------------------------------------

// fieldOf resolves a struct field object "pkgpath.Type.field".
func (p *Program) fieldOf(spec string) *types.Var {
	i := strings.LastIndex(spec, ".")
	fname := spec[i+1:]
	rest := spec[:i]
	j := strings.LastIndex(rest, ".")
	pkgPath, tname := rest[:j], rest[j+1:]
	pk := p.Pkg(pkgPath)
	if pk == nil || pk.Types == nil {
		return nil
	}
	tn, _ := pk.Types.Scope().Lookup(tname).(*types.TypeName)
	if tn == nil {
		return nil
	}
	st, ok := tn.Type().Underlying().(*types.Struct)
	if !ok {
		return nil
	}
	for k := 0; k < st.NumFields(); k++ {
		if fieldDisplayName(st.Field(k)) == fname {
			return st.Field(k)
		}
	}
	return nil
}

func fieldVarOf(fa *ssa.FieldAddr) *types.Var {
	t := fa.X.Type().Underlying().(*types.Pointer).Elem().Underlying().(*types.Struct)
	return t.Field(fa.Field)
}

type fieldAccess struct {
	fn    *ssa.Function
	ins   ssa.Instruction
	write bool
	how   string
	pos   token.Pos
}

// fieldAccesses finds every read and write of the field in the program that owns it.
// Writes: Store to the field address; MapUpdate / delete / clear on the loaded
// map; store through IndexAddr of the loaded slice or of the array field;
// passing the field address to a call (reported as how="escape:<callee>").
func (p *Program) fieldAccesses(fv *types.Var) []fieldAccess {
	var out []fieldAccess
	pp := p
	if fv.Pkg() != nil && strings.HasPrefix(fv.Pkg().Path(), btcd+"/v2transport") && p.V2 != nil {
		pp = p.V2
	}
	for fn := range allFuncs(pp) {
		if fn.Blocks == nil {
			continue
		}
		for _, b := range fn.Blocks {
			for _, in := range b.Instrs {
				fa, ok := in.(*ssa.FieldAddr)
				if ok && fieldVarOf(fa) == fv {
					out = append(out, classifyFieldUse(fn, fa)...)
				}
				if fld, ok := in.(*ssa.Field); ok {
					st := fld.X.Type().Underlying().(*types.Struct)
					if st.Field(fld.Field) == fv {
						out = append(out, fieldAccess{fn: fn, ins: in, how: "read", pos: in.Pos()})
					}
				}
			}
		}
	}
	sort.Slice(out, func(i, j int) bool { return out[i].pos < out[j].pos })
	return out
}

var allFuncsCache = map[*Program]map[*ssa.Function]bool{}

func allFuncs(p *Program) map[*ssa.Function]bool {
	if m, ok := allFuncsCache[p]; ok {
		return m
	}
	m := map[*ssa.Function]bool{}
	var add func(fn *ssa.Function)
	add = func(fn *ssa.Function) {
		if fn == nil || m[fn] {
			return
		}
		m[fn] = true
		for _, a := range fn.AnonFuncs {
			add(a)
		}
	}
	for _, sp := range p.SSA.AllPackages() {
		if !strings.HasPrefix(sp.Pkg.Path(), btcd) {
			continue
		}
		for _, mem := range sp.Members {
			switch x := mem.(type) {
			case *ssa.Function:
				add(x)
			case *ssa.Type:
				for _, T := range []types.Type{x.Type(), types.NewPointer(x.Type())} {
					ms := p.SSA.MethodSets.MethodSet(T)
					for i := 0; i < ms.Len(); i++ {
						add(p.SSA.MethodValue(ms.At(i)))
					}
				}
			}
		}
	}
	allFuncsCache[p] = m
	return m
}

func classifyFieldUse(fn *ssa.Function, fa *ssa.FieldAddr) []fieldAccess {
	var out []fieldAccess
	for _, ref := range *fa.Referrers() {
		switch r := ref.(type) {
		case *ssa.Store:
			if r.Addr == fa {
				out = append(out, fieldAccess{fn: fn, ins: r, write: true, how: "store", pos: r.Pos()})
			} else {
				out = append(out, fieldAccess{fn: fn, ins: r, write: true, how: "escape:stored-address", pos: r.Pos()})
			}
		case *ssa.UnOp:
			if r.Op != token.MUL {
				continue
			}
			acc := fieldAccess{fn: fn, ins: r, how: "read", pos: r.Pos()}
			// uses of the loaded value that mutate the referenced container
			for _, u := range *r.Referrers() {
				switch m := u.(type) {
				case *ssa.MapUpdate:
					if m.Map == ssa.Value(r) {
						out = append(out, fieldAccess{fn: fn, ins: m, write: true, how: "mapset", pos: m.Pos()})
					}
				case *ssa.Call:
					if bi, ok := m.Common().Value.(*ssa.Builtin); ok && (bi.Name() == "delete" || bi.Name() == "clear") && len(m.Common().Args) > 0 && m.Common().Args[0] == ssa.Value(r) {
						out = append(out, fieldAccess{fn: fn, ins: m, write: true, how: bi.Name(), pos: m.Pos()})
					}
				case *ssa.IndexAddr:
					if m.X == ssa.Value(r) {
						for _, u2 := range *m.Referrers() {
							if st, ok := u2.(*ssa.Store); ok && st.Addr == ssa.Value(m) {
								out = append(out, fieldAccess{fn: fn, ins: st, write: true, how: "elemstore", pos: st.Pos()})
							}
							// element that is itself a map: updates of it mutate the container
							if ld, ok := u2.(*ssa.UnOp); ok && ld.Op == token.MUL {
								for _, u3 := range *ld.Referrers() {
									switch mm := u3.(type) {
									case *ssa.MapUpdate:
										if mm.Map == ssa.Value(ld) {
											out = append(out, fieldAccess{fn: fn, ins: mm, write: true, how: "elem-mapset", pos: mm.Pos()})
										}
									case *ssa.Call:
										if bi, ok := mm.Common().Value.(*ssa.Builtin); ok && bi.Name() == "delete" && mm.Common().Args[0] == ssa.Value(ld) {
											out = append(out, fieldAccess{fn: fn, ins: mm, write: true, how: "elem-delete", pos: mm.Pos()})
										}
									}
								}
							}
						}
					}
				}
			}
			out = append(out, acc)
		case *ssa.IndexAddr: // array field element
			for _, u2 := range *r.Referrers() {
				if st, ok := u2.(*ssa.Store); ok && st.Addr == ssa.Value(r) {
					out = append(out, fieldAccess{fn: fn, ins: st, write: true, how: "elemstore", pos: st.Pos()})
				} else {
					out = append(out, fieldAccess{fn: fn, ins: u2, how: "read", pos: u2.Pos()})
				}
			}
		case *ssa.FieldAddr: // nested struct field: treated as access to the outer field
			sub := classifyFieldUse(fn, r)
			out = append(out, sub...)
		case *ssa.Call, *ssa.Go, *ssa.Defer:
			cc := r.(ssa.CallInstruction).Common()
			name := "?"
			if f := cc.StaticCallee(); f != nil {
				name = f.String()
			} else if cc.IsInvoke() {
				name = cc.Method.FullName()
			}
			w := true
			how := "escape:" + name
			if f := cc.StaticCallee(); f != nil && isPure(f) {
				w = false
				how = "read-via:" + name
			}
			if strings.HasPrefix(name, "sync/atomic.Load") || strings.HasPrefix(name, "(*sync/atomic.") && strings.HasSuffix(name, ").Load") {
				w = false
				how = "atomic-read"
			} else if strings.HasPrefix(name, "sync/atomic.") || strings.HasPrefix(name, "(*sync/atomic.") {
				how = "atomic-write"
			} else if strings.HasPrefix(name, "(*sync.") {
				w = false
				how = "sync:" + name
			}
			out = append(out, fieldAccess{fn: fn, ins: r, write: w, how: how, pos: r.Pos()})
		default:
			out = append(out, fieldAccess{fn: fn, ins: ref, how: "read", pos: ref.Pos()})
		}
	}
	return out
}
