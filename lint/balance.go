package main

import (
	"fmt"
	"sort"
	"strings"

	"golang.org/x/tools/go/ssa"
)

// Lock balance (pairing rule): no return of a function may be reached only with a mutex held that
// the function itself acquired and neither released nor scheduled for release by a defer.
//
// Intra-procedural must-hold analysis per function: the state is the set of (mutex term, mode)
// pairs held on EVERY path to a point (intersection at joins), so a report is a definite leak on
// every path to that return — the shape of "an early return added between Lock and Unlock".
// A deferred Unlock (direct, or inside a deferred closure) releases at every exit. Functions whose
// contract is to return with the lock held are listed with a reason.

type lockKey struct {
	mu   string // canonical term of the mutex operand
	read bool
}

func syncLockOp(name string) (acquire, read, ok bool) {
	switch name {
	case "(*sync.Mutex).Lock", "(*sync.RWMutex).Lock":
		return true, false, true
	case "(*sync.RWMutex).RLock":
		return true, true, true
	case "(*sync.Mutex).Unlock", "(*sync.RWMutex).Unlock":
		return false, false, true
	case "(*sync.RWMutex).RUnlock":
		return false, true, true
	}
	return false, false, false
}

type balanceLeak struct {
	fn   *ssa.Function
	ret  ssa.Instruction
	key  lockKey
	lock ssa.Instruction
}

// closureUnlocks: mutex terms (rendered in the closure's own canon, free variables by name) that
// the closure releases unconditionally somewhere in its body.
func closureReleases(p *Program, fn *ssa.Function) bool {
	for _, b := range fn.Blocks {
		for _, in := range b.Instrs {
			if c, ok := in.(*ssa.Call); ok {
				if callee := c.Common().StaticCallee(); callee != nil {
					if acq, _, ok := syncLockOp(funcName(callee)); ok && !acq {
						return true
					}
				}
			}
		}
	}
	return false
}

func lockBalance(p *Program, fn *ssa.Function) []balanceLeak {
	if fn.Blocks == nil {
		return nil
	}
	c := newCanon(p, fn)
	type st map[lockKey]ssa.Instruction
	// does the function touch a mutex at all?
	touches := false
	deferAny := false
	for _, b := range fn.Blocks {
		for _, in := range b.Instrs {
			switch x := in.(type) {
			case *ssa.Call:
				if callee := x.Common().StaticCallee(); callee != nil {
					if _, _, ok := syncLockOp(funcName(callee)); ok {
						touches = true
					}
				}
			case *ssa.Defer:
				if callee := x.Common().StaticCallee(); callee != nil {
					if acq, _, ok := syncLockOp(funcName(callee)); ok && !acq && len(x.Common().Args) > 0 {
						continue // handled flow-sensitively in transfer
					}
					if callee.Parent() != nil && closureReleases(p, callee) {
						deferAny = true // a deferred closure that unlocks: not followed further
					}
				} else {
					deferAny = true
				}
			}
		}
	}
	if !touches || deferAny {
		return nil
	}
	in := map[*ssa.BasicBlock]st{}
	seen := map[*ssa.BasicBlock]bool{}
	meet := func(a, b st) st {
		out := st{}
		for k, v := range a {
			if _, ok := b[k]; ok {
				out[k] = v
			}
		}
		return out
	}
	equal := func(a, b st) bool {
		if len(a) != len(b) {
			return false
		}
		for k := range a {
			if _, ok := b[k]; !ok {
				return false
			}
		}
		return true
	}
	transfer := func(b *ssa.BasicBlock, s st, leaks *[]balanceLeak) st {
		cur := st{}
		for k, v := range s {
			cur[k] = v
		}
		for _, ins := range b.Instrs {
			switch x := ins.(type) {
			case *ssa.Call:
				callee := x.Common().StaticCallee()
				if callee == nil {
					continue
				}
				acq, rd, ok := syncLockOp(funcName(callee))
				if !ok || len(x.Common().Args) == 0 {
					continue
				}
				k := lockKey{c.term(x.Common().Args[0]), rd}
				if acq {
					cur[k] = ins
				} else {
					delete(cur, k)
				}
			case *ssa.Defer:
				// a release scheduled on every path to here: recorded in the same must-set
				if callee := x.Common().StaticCallee(); callee != nil {
					if acq, rd, ok := syncLockOp(funcName(callee)); ok && !acq && len(x.Common().Args) > 0 {
						cur[lockKey{"defer " + c.term(x.Common().Args[0]), rd}] = ins
					}
				}
			case *ssa.Return:
				if leaks != nil {
					for k, at := range cur {
						if strings.HasPrefix(k.mu, "defer ") {
							continue
						}
						if _, scheduled := cur[lockKey{"defer " + k.mu, k.read}]; !scheduled {
							*leaks = append(*leaks, balanceLeak{fn, ins, k, at})
						}
					}
				}
			}
		}
		return cur
	}
	work := []*ssa.BasicBlock{fn.Blocks[0]}
	in[fn.Blocks[0]] = st{}
	seen[fn.Blocks[0]] = true
	for len(work) > 0 {
		b := work[len(work)-1]
		work = work[:len(work)-1]
		out := transfer(b, in[b], nil)
		for _, s := range b.Succs {
			if !seen[s] {
				seen[s] = true
				in[s] = out
				work = append(work, s)
				continue
			}
			m := meet(in[s], out)
			if !equal(m, in[s]) {
				in[s] = m
				work = append(work, s)
			}
		}
	}
	var leaks []balanceLeak
	for _, b := range fn.Blocks {
		if seen[b] && b != fn.Recover {
			transfer(b, in[b], &leaks)
		}
	}
	return leaks
}

// ruleLockBalance checks every source function of the given packages.
func ruleLockBalance(p *Program, r *Report, pkgs []string, except map[string]string) {
	n, withLocks := 0, 0
	var bad []string
	for _, path := range pkgs {
		pp := p.progFor(path)
		for fn := range allFuncs(pp) {
			if fn.Pkg == nil || fn.Pkg.Pkg.Path() != path || fn.Blocks == nil || fn.Synthetic != "" {
				continue
			}
			n++
			leaks := lockBalance(pp, fn)
			name := funcName(fn)
			touch := false
			for _, b := range fn.Blocks {
				for _, in := range b.Instrs {
					if c, ok := in.(*ssa.Call); ok {
						if callee := c.Common().StaticCallee(); callee != nil {
							if _, _, ok := syncLockOp(funcName(callee)); ok {
								touch = true
							}
						}
					}
				}
			}
			if touch {
				withLocks++
			}
			if len(leaks) == 0 {
				continue
			}
			if why, ok := except[name]; ok {
				o := r.add("lock-balance", name, pp.pos(fn.Pos()), true, "listed exception: "+why)
				o.Trivial = true
				continue
			}
			sort.Slice(leaks, func(i, j int) bool { return leaks[i].ret.Pos() < leaks[j].ret.Pos() })
			l := leaks[0]
			mode := "Lock"
			if l.key.read {
				mode = "RLock"
			}
			bad = append(bad, name)
			r.fail("lock-balance", name+" :: "+l.key.mu, pp.pos(l.ret.Pos()),
				fmt.Sprintf("this return is reached only with %s of %s held (acquired at %s) and nothing releases it — neither a call before the return nor a defer", mode, l.key.mu, pp.pos(l.lock.Pos())))
		}
	}
	r.Analysed["functions"] += n
	if len(bad) == 0 {
		r.pass("lock-balance", strings.Join(shortAll(pkgs), ","), "", fmt.Sprintf("%d functions, %d use a mutex; every acquire is released on all exits or by a defer", n, withLocks))
	}
	if withLocks == 0 {
		r.fail("lock-balance", strings.Join(shortAll(pkgs), ","), "", "no function of the scope uses a mutex (anchor lost)")
	}
}

func shortAll(xs []string) []string {
	var out []string
	for _, x := range xs {
		out = append(out, short(x))
	}
	return out
}

func init() {
	hold := map[string]string{
		"(*database/ffldb.blockStore).blockFile": "contract: returns with the file's read lock held; every caller releases it (documented at the function)",
		"(*database/ffldb.db).begin":             "contract: a transaction holds closeLock (read) for its lifetime; released by transaction.close",
	}
	for id, pkgs := range map[string][]string{
		"C01": {btcd + "/blockchain"},
		"C02": {btcd + "/blockchain"},
		"C03": {btcd + "/blockchain"},
		"C04": {btcd + "/blockchain"},
		"C06": {btcd + "/txscript/v2"},
		"C07": {btcd + "/txscript/v2"},
		"C09": {btcd + "/blockchain"},
		"C12": {btcd + "/blockchain", btcd + "/mining"},
		"C13": {btcd + "/blockchain"},
		"C14": {btcd + "/blockchain"},
		"C15": {btcd + "/blockchain"},
		"C20": {btcd + "/btcutil/v2/bloom"},
		"C05": {btcd + "/database/ffldb"},
		"C10": {btcd + "/mempool"},
		"C17": {btcd + "/blockchain"},
		"C18": {btcd + "/peer"},
	} {
		pkgs := pkgs
		extra(id, func(p *Program, r *Report) { ruleLockBalance(p, r, pkgs, hold) })
	}
}
