package main

import (
	"go/types"
	"strings"

	"golang.org/x/tools/go/ssa"
)

// isPure: the function certainly has no effect on state visible outside its own
// frame (no store through a non-local address, no map update, send, go, defer,
// and no call to a function that is not pure). Conservative: unknown => impure.
var pureCache = map[*ssa.Function]int{} // 1 pure, 2 impure, 3 in progress (assumed pure for recursion)

var pureExternal = map[string]bool{
	"bytes.Equal": true, "bytes.Compare": true, "bytes.HasPrefix": true, "bytes.Contains": true, "bytes.IndexByte": true,
	"strings.HasPrefix": true, "strings.HasSuffix": true, "strings.Contains": true, "strings.ToLower": true, "strings.ToUpper": true,
	"strings.LastIndexByte": true, "strings.IndexByte": true, "strings.Index": true,
	"time.Now": true, "time.Unix": true, "(time.Time).Unix": true, "(time.Time).After": true, "(time.Time).Before": true,
	"(time.Time).Add": true, "(time.Time).Equal": true, "(time.Time).Sub": true, "time.Since": true, "(time.Time).IsZero": true,
	"(time.Duration).Seconds": true,
	"math.Pow": true, "math.Log": true, "math.Floor": true, "math.Ceil": true, "math/bits.Len64": true, "math/bits.Mul64": true,
	"(*math/big.Int).Cmp": true, "(*math/big.Int).Sign": true, "(*math/big.Int).BitLen": true, "(*math/big.Int).Bytes": true,
	"(*math/big.Int).Int64": true, "(*math/big.Int).Uint64": true, "math/big.NewInt": true,
	"(encoding/binary.littleEndian).Uint32": true, "(encoding/binary.littleEndian).Uint64": true, "(encoding/binary.littleEndian).Uint16": true,
	"(encoding/binary.bigEndian).Uint32": true, "(encoding/binary.bigEndian).Uint64": true, "(encoding/binary.bigEndian).Uint16": true,
	"errors.New": true, "fmt.Errorf": true, "fmt.Sprintf": true, "fmt.Sprint": true, "errors.Is": true, "errors.As": true,
	"(*container/list.List).Len": true, "(*container/list.List).Front": true, "(*container/list.List).Back": true,
	"(*container/list.Element).Next": true, "(*container/list.Element).Prev": true,
	"sort.SearchInts": true, "unicode/utf8.Valid": true, "unicode/utf8.ValidString": true,
	"crypto/sha256.Sum256": true, "encoding/hex.EncodeToString": true,
}

// observers: accessors that only read, or that memoise a value they would otherwise recompute
// (cached hashes, lazily wrapped transactions), and read-only interface getters. Calling one more
// or one less of them (e.g. from a log statement) is not a change of behaviour; their results
// still appear inside the operand terms of guards and effects wherever they are used.
var observerCallees = map[string]bool{
	"(*btcutil/v2.Tx).Hash": true, "(*btcutil/v2.Tx).WitnessHash": true, "(*btcutil/v2.Tx).HasWitness": true, "(*btcutil/v2.Tx).MsgTx": true, "(*btcutil/v2.Tx).Index": true,
	"(*btcutil/v2.Block).Hash": true, "(*btcutil/v2.Block).Transactions": true, "(*btcutil/v2.Block).Tx": true, "(*btcutil/v2.Block).Bytes": true,
	"(*btcutil/v2.Block).Height": true, "(*btcutil/v2.Block).MsgBlock": true, "(*btcutil/v2.Block).TxHash": true, "(*btcutil/v2.Block).BytesNoWitness": true,
	"(database.Tx).Metadata": true, "(database.Bucket).Bucket": true, "(database.Bucket).Get": true, "(database.Bucket).Writable": true,
	"(*bytes.Buffer).Bytes": true, "(*bytes.Buffer).Len": true, "(*bytes.Reader).Len": true,
	"blockchain.CalcPastMedianTime": true, "(*blockchain.BlockChain).BestSnapshot": true,
	"(github.com/decred/dcrd/dcrec/secp256k1/v4.PublicKey).SerializeCompressed": true, "(github.com/decred/dcrd/dcrec/secp256k1/v4.PublicKey).SerializeUncompressed": true,
	"(*wire/v2.MsgTx).TxHash": true, "(*wire/v2.MsgTx).WitnessHash": true, "(*wire/v2.MsgBlock).BlockHash": true, "(*wire/v2.BlockHeader).BlockHash": true,
	"(*wire/v2.MsgTx).SerializeSize": true, "(*wire/v2.MsgTx).SerializeSizeStripped": true, "(*wire/v2.MsgBlock).SerializeSize": true, "(*wire/v2.MsgBlock).SerializeSizeStripped": true,
}

func isObserver(short string) bool {
	if observerCallees[short] {
		return true
	}
	// read-only context interfaces of package blockchain
	return strings.HasPrefix(short, "(blockchain.HeaderCtx).") || strings.HasPrefix(short, "(blockchain.ChainCtx).") ||
		strings.HasPrefix(short, "(blockchain.thresholdConditionChecker).") && !strings.HasSuffix(short, ".Condition") && false
}

func isNoiseCallee(name string) bool {
	return strings.HasPrefix(name, "(github.com/btcsuite/btclog.Logger).") || strings.HasPrefix(name, "(btclog.Logger).") ||
		strings.HasPrefix(name, "(github.com/btcsuite/btclog") || strings.Contains(name, "go-spew/spew.") ||
		strings.HasPrefix(name, "fmt.") || name == "errors.New" || strings.HasPrefix(name, "(*github.com/btcsuite/btclog")
}

func isPure(fn *ssa.Function) bool {
	if fn == nil {
		return false
	}
	switch pureCache[fn] {
	case 1, 3:
		return true
	case 2:
		return false
	}
	if fn.Blocks == nil {
		ok := pureExternal[fn.String()]
		if ok {
			pureCache[fn] = 1
		} else {
			pureCache[fn] = 2
		}
		return ok
	}
	if fn.Pkg == nil || !strings.HasPrefix(fn.Pkg.Pkg.Path(), btcd) {
		ok := pureExternal[fn.String()]
		if ok {
			pureCache[fn] = 1
		} else {
			pureCache[fn] = 2
		}
		return ok
	}
	pureCache[fn] = 3
	ok := purityScan(fn)
	if ok {
		pureCache[fn] = 1
	} else {
		pureCache[fn] = 2
	}
	return ok
}

// localAddr: address derived only from a local Alloc that does not escape by being a param.
func localAddr(v ssa.Value) bool {
	for i := 0; i < 20; i++ {
		switch x := v.(type) {
		case *ssa.Alloc:
			return true
		case *ssa.FieldAddr:
			v = x.X
		case *ssa.IndexAddr:
			// element of a local array (Alloc) or of a slice made locally
			switch y := x.X.(type) {
			case *ssa.Alloc:
				return true
			case *ssa.MakeSlice:
				return true
			case *ssa.Slice:
				v = y.X
			default:
				_ = y
				return false
			}
		case *ssa.Slice:
			v = x.X
		case *ssa.MakeSlice:
			return true
		default:
			return false
		}
	}
	return false
}

func purityScan(fn *ssa.Function) bool {
	for _, b := range fn.Blocks {
		for _, in := range b.Instrs {
			switch x := in.(type) {
			case *ssa.Store:
				if !localAddr(x.Addr) {
					return false
				}
			case *ssa.MapUpdate:
				if _, ok := x.Map.(*ssa.MakeMap); !ok {
					return false
				}
			case *ssa.Send, *ssa.Go, *ssa.Defer, *ssa.Select, *ssa.Panic:
				if _, isPanic := x.(*ssa.Panic); isPanic {
					continue
				}
				if d, ok := x.(*ssa.Defer); ok {
					if c := d.Common().StaticCallee(); c != nil && isSyncLockOp(c.String()) {
						continue
					}
				}
				return false
			case *ssa.Call:
				cc := x.Common()
				if bi, ok := cc.Value.(*ssa.Builtin); ok {
					switch bi.Name() {
					case "delete", "close", "clear":
						return false
					case "copy":
						if !localAddr(cc.Args[0]) {
							return false
						}
					}
					continue
				}
				callee := cc.StaticCallee()
				if callee == nil {
					return false
				}
				if isNoiseCallee(callee.String()) || isSyncLockOp(callee.String()) {
					continue
				}
				if !isPure(callee) {
					return false
				}
			}
		}
	}
	return true
}

var _ = types.Typ

func isSyncLockOp(name string) bool {
	return strings.HasPrefix(name, "(*sync.RWMutex).") || strings.HasPrefix(name, "(*sync.Mutex).")
}
