package main

import (
	"fmt"
	"go/ast"
	"go/constant"
	"go/token"
	"go/types"
	"sort"
	"strings"
)

// E3 (sibling agreement on guards) — protocol-version gates. Every comparison of a protocol
// version value with a named version constant is normalised to the threshold "first version for
// which the new behaviour applies"; all sites that mention the same constant must agree on that
// threshold. A writer that gates a field on `pver >= V` while the size function or the reader uses
// `pver > V` breaks the codec exactly at version V, which no fixed test vector pins.
func ruleVersionGates(p *Program, r *Report, pkgPath string) {
	pk := p.Pkg(pkgPath)
	if pk == nil {
		r.fail("anchor", pkgPath, "", "package not loaded")
		return
	}
	type site struct {
		thr  int64
		pos  token.Pos
		fn   string
		text string
	}
	groups := map[*types.Const][]site{}
	isPver := func(e ast.Expr) bool {
		e = ast.Unparen(e)
		if call, ok := e.(*ast.CallExpr); ok && len(call.Args) == 1 { // conversions
			e = ast.Unparen(call.Args[0])
		}
		id, ok := e.(*ast.Ident)
		if !ok {
			if sel, ok := e.(*ast.SelectorExpr); ok {
				id = sel.Sel
			} else {
				return false
			}
		}
		n := strings.ToLower(id.Name)
		if !(strings.Contains(n, "pver") || strings.Contains(n, "protocolversion") || n == "version") {
			return false
		}
		t := pk.TypesInfo.TypeOf(e)
		if t == nil {
			return false
		}
		b, ok := t.Underlying().(*types.Basic)
		return ok && (b.Kind() == types.Uint32 || b.Kind() == types.Int32)
	}
	constObj := func(e ast.Expr) *types.Const {
		e = ast.Unparen(e)
		if call, ok := e.(*ast.CallExpr); ok && len(call.Args) == 1 {
			e = ast.Unparen(call.Args[0])
		}
		var id *ast.Ident
		switch x := e.(type) {
		case *ast.Ident:
			id = x
		case *ast.SelectorExpr:
			id = x.Sel
		default:
			return nil
		}
		c, _ := pk.TypesInfo.Uses[id].(*types.Const)
		if c == nil || !strings.HasSuffix(c.Name(), "Version") {
			return nil
		}
		return c
	}
	for _, f := range pk.Syntax {
		var fname string
		ast.Inspect(f, func(n ast.Node) bool {
			if fd, ok := n.(*ast.FuncDecl); ok {
				fname = fd.Name.Name
				if fd.Recv != nil && len(fd.Recv.List) > 0 {
					fname = types.ExprString(fd.Recv.List[0].Type) + "." + fname
				}
			}
			be, ok := n.(*ast.BinaryExpr)
			if !ok {
				return true
			}
			var c *types.Const
			op := be.Op
			switch {
			case isPver(be.X) && constObj(be.Y) != nil:
				c = constObj(be.Y)
			case isPver(be.Y) && constObj(be.X) != nil:
				c = constObj(be.X)
				op = mirrorOp(op)
			default:
				return true
			}
			v, _ := constant.Int64Val(c.Val())
			thr := int64(0)
			switch op {
			case token.GEQ, token.LSS:
				thr = v
			case token.GTR, token.LEQ:
				thr = v + 1
			default:
				return true // == / != are not gates
			}
			groups[c] = append(groups[c], site{thr, be.Pos(), fname, types.ExprString(be)})
			return true
		})
	}
	var cs []*types.Const
	for c := range groups {
		cs = append(cs, c)
	}
	sort.Slice(cs, func(i, j int) bool { return cs[i].Name() < cs[j].Name() })
	for _, c := range cs {
		sites := groups[c]
		cnt := map[int64]int{}
		for _, s := range sites {
			cnt[s.thr]++
		}
		major, best := int64(0), -1
		for t, n := range cnt {
			if n > best || (n == best && t < major) {
				major, best = t, n
			}
		}
		cons := fmt.Sprintf("%s gate %s: %d sites agree on 'new behaviour from version %d'", short(pkgPath), c.Name(), len(sites), major)
		if len(cnt) == 1 {
			r.pass("version-gate", cons, p.pos(sites[0].pos), "")
			continue
		}
		for _, s := range sites {
			if s.thr != major {
				r.fail("version-gate", fmt.Sprintf("%s gate %s in %s", short(pkgPath), c.Name(), s.fn), p.pos(s.pos),
					fmt.Sprintf("`%s` applies from version %d, but %d sibling site(s) gate the same constant from version %d: encoder, decoder and size function disagree at exactly that version", s.text, s.thr, best, major))
			}
		}
	}
	if len(cs) == 0 {
		r.fail("version-gate", short(pkgPath), "", "no protocol version gate found (anchor lost)")
	}
}
