package main

import (
	"bufio"
	"fmt"
	"go/types"
	"os"
	"path/filepath"
	"sort"
	"strings"

	"golang.org/x/tools/go/ssa"
	"golang.org/x/tools/go/ssa/ssautil"
)

// Virtual inlining of unreviewed helpers.
//
// rules/funcs.known lists every function of the btcd modules that existed when the tables were
// frozen. A function that is not in that list has never been reviewed under its own name, so a call
// to it from a reviewed function is not taken as an opaque name: its body is examined in place —
// result terms, guards and effects are rendered with the call's arguments substituted for the
// parameters and merged into the caller's facts. Extracting a few lines into a new helper therefore
// leaves the caller's tables unchanged, and hiding an effect or dropping a check inside a new helper
// does not take it out of view.

type knownFunc struct {
	flags string // configurations the function exists in: L linux/amd64, 3 linux/386, W windows/amd64
	sig   string // parameter and result types
}

var (
	knownFuncs     map[string]knownFunc
	knownFuncsDone bool
	inlinable      = map[*ssa.Function]int{} // 1 yes, 2 no
	// a function of funcs.known that is gone and an unreviewed function of the same package,
	// receiver and signature: the reviewed function under a new name
	renamedFrom = map[*ssa.Function]string{} // new function -> old identity
	renamedTo   = map[string]*ssa.Function{} // old identity -> new function
)

func loadKnownFuncs() {
	if knownFuncsDone {
		return
	}
	knownFuncsDone = true
	fh, err := os.Open(filepath.Join(verifDir(), "rules", "funcs.known"))
	if err != nil {
		return
	}
	defer fh.Close()
	knownFuncs = map[string]knownFunc{}
	sc := bufio.NewScanner(fh)
	sc.Buffer(make([]byte, 1<<20), 1<<20)
	for sc.Scan() {
		s := sc.Text()
		if strings.TrimSpace(s) == "" || strings.HasPrefix(s, "#") {
			continue
		}
		parts := strings.SplitN(s, "\t", 3)
		k := knownFunc{flags: "L3W"}
		if len(parts) > 1 {
			k.flags = parts[1]
		}
		if len(parts) > 2 {
			k.sig = parts[2]
		}
		knownFuncs[parts[0]] = k
	}
}

func isKnownFunc(id string) bool {
	_, ok := knownFuncs[id]
	return ok
}

func configFlag() string {
	switch {
	case os.Getenv("VERIF_GOOS") == "windows":
		return "W"
	case os.Getenv("VERIF_GOARCH") == "386":
		return "3"
	}
	return "L"
}

// sigString: parameter and result types without names.
func sigString(fn *ssa.Function) string {
	sig := fn.Signature
	var ps, rs []string
	for i := 0; i < sig.Params().Len(); i++ {
		ps = append(ps, sig.Params().At(i).Type().String())
	}
	for i := 0; i < sig.Results().Len(); i++ {
		rs = append(rs, sig.Results().At(i).Type().String())
	}
	v := ""
	if sig.Variadic() {
		v = "..."
	}
	return "(" + strings.Join(ps, ",") + v + ")(" + strings.Join(rs, ",") + ")"
}

// ownerKey: identity without the function's own name: "(*pkg.T)." or "pkg.".
func ownerKey(id string) string {
	if strings.HasPrefix(id, "(") {
		if i := strings.Index(id, ")."); i >= 0 {
			return id[:i+2]
		}
	}
	if i := strings.LastIndex(id, "."); i >= 0 {
		return id[:i+1]
	}
	return id
}

// detectRenames pairs every reviewed function that no longer exists with the one unreviewed
// function of the same package, receiver and signature, if there is exactly one on each side.
func detectRenames(p *Program) {
	loadKnownFuncs()
	if knownFuncs == nil {
		return
	}
	present := map[string]*ssa.Function{}
	for _, pr := range []*Program{p, p.V2} {
		if pr == nil || pr.SSA == nil {
			continue
		}
		for fn := range ssautil.AllFunctions(pr.SSA) {
			if fn.Synthetic != "" || fn.Pkg == nil || fn.Parent() != nil || !strings.HasPrefix(fn.Pkg.Pkg.Path(), btcdPrefix) {
				continue
			}
			if p.progFor(fn.Pkg.Pkg.Path()) != pr {
				continue // the module-cache copy of a package that is analysed from the tree in the other program
			}
			if fn.TypeParams().Len() > 0 || len(fn.TypeArgs()) > 0 {
				continue
			}
			present[funcID(fn)] = fn
		}
	}
	cfg := configFlag()
	olds := map[string][]string{}
	for id, k := range knownFuncs {
		if _, ok := present[id]; !ok && strings.Contains(k.flags, cfg) && k.sig != "" {
			key := ownerKey(id) + "|" + k.sig
			olds[key] = append(olds[key], id)
		}
	}
	news := map[string][]*ssa.Function{}
	for id, fn := range present {
		if !isKnownFunc(id) {
			key := ownerKey(id) + "|" + sigString(fn)
			news[key] = append(news[key], fn)
		}
	}
	var notes []string
	for key, os_ := range olds {
		ns := news[key]
		if len(os_) == 1 && len(ns) == 1 {
			renamedFrom[ns[0]] = os_[0]
			renamedTo[os_[0]] = ns[0]
			notes = append(notes, "note: "+ns[0].String()+" is taken as the reviewed "+os_[0]+" under a new name (same package, receiver and signature; the reviewed one is gone)")
		}
	}
	sort.Strings(notes)
	for _, n := range notes {
		fmt.Println(n)
	}
}

// tableNameToID: "pkg.(*T).M" -> "(*pkg.T).M" (the identity format of funcs.known).
func tableNameToID(name string) string {
	if i := strings.Index(name, ".("); i >= 0 {
		rest := name[i+2:]
		if j := strings.Index(rest, ")."); j >= 0 {
			star := ""
			t := rest[:j]
			if strings.HasPrefix(t, "*") {
				star, t = "*", t[1:]
			}
			return "(" + star + name[:i] + "." + t + ")." + rest[j+2:]
		}
	}
	return name
}

func funcID(fn *ssa.Function) string {
	if o := fn.Origin(); o != nil {
		fn = o
	}
	return fn.String()
}

const btcdPrefix = "github.com/btcsuite/btcd"

// listFuncs prints the identity of every source function of the btcd modules (for funcs.known).
func listFuncs(p *Program) []string {
	set := map[string]bool{}
	for _, pr := range []*Program{p, p.V2} {
		if pr == nil {
			continue
		}
		for fn := range ssautil.AllFunctions(pr.SSA) {
			if fn.Synthetic != "" || fn.Pkg == nil || fn.Parent() != nil {
				continue
			}
			if !strings.HasPrefix(fn.Pkg.Pkg.Path(), btcdPrefix) || p.progFor(fn.Pkg.Pkg.Path()) != pr {
				continue
			}
			set[funcID(fn)+"\t"+sigString(fn)] = true
		}
	}
	var out []string
	for s := range set {
		out = append(out, s)
	}
	sort.Strings(out)
	return out
}

// isNewFunc: a named source function of btcd with a body that is not in funcs.known and that can
// be examined in place (no defer/recover, whose meaning depends on the frame they run in).
func (p *Program) isNewFunc(fn *ssa.Function) bool {
	loadKnownFuncs()
	if knownFuncs == nil || fn == nil || fn.Blocks == nil || fn.Synthetic != "" || fn.Parent() != nil || fn.Pkg == nil {
		return false
	}
	if v := inlinable[fn]; v != 0 {
		return v == 1
	}
	ok := strings.HasPrefix(fn.Pkg.Pkg.Path(), btcdPrefix) && !isKnownFunc(funcID(fn)) && renamedFrom[fn] == "" &&
		fn.TypeParams().Len() == 0 && len(fn.TypeArgs()) == 0
	if ok {
		for _, b := range fn.Blocks {
			for _, in := range b.Instrs {
				switch x := in.(type) {
				case *ssa.Defer, *ssa.RunDefers:
					ok = false
				case *ssa.Call:
					if bi, isB := x.Common().Value.(*ssa.Builtin); isB && bi.Name() == "recover" {
						ok = false
					}
				}
			}
		}
	}
	if ok {
		inlinable[fn] = 1
	} else {
		inlinable[fn] = 2
	}
	return ok
}

const maxInlineDepth = 3

// inlined returns the facts of the callee rendered in the caller's terms when the call is a static
// call of an unreviewed helper, nil otherwise.
func (c *Canon) inlined(cc *ssa.CallCommon) *FuncFacts {
	if cc == nil || cc.IsInvoke() {
		return nil
	}
	h, ok := cc.Value.(*ssa.Function)
	if !ok || !c.p.isNewFunc(h) {
		return nil
	}
	if h == c.fn || len(c.chain) >= maxInlineDepth {
		return nil
	}
	for _, a := range c.chain {
		if a == h {
			return nil
		}
	}
	if hf, ok := c.inl[cc]; ok {
		return hf
	}
	if len(cc.Args) != len(h.Params) {
		return nil
	}
	env := map[*ssa.Parameter]string{}
	cyc := false
	for i, prm := range h.Params {
		s := c.term(cc.Args[i])
		if strings.Contains(s, "↺") {
			cyc = true
		}
		env[prm] = s
	}
	mode := rejNone
	if res := h.Signature.Results(); res.Len() > 0 && isErrorType(res.At(res.Len()-1).Type()) {
		mode = rejErr
	}
	pp := c.p.progFor(h.Pkg.Pkg.Path())
	hf := pp.facts(h, mode)
	hf.c.env = env
	hf.c.chain = append(append([]*ssa.Function{}, c.chain...), c.fn)
	if !cyc {
		if c.inl == nil {
			c.inl = map[*ssa.CallCommon]*FuncFacts{}
		}
		c.inl[cc] = hf
	}
	return hf
}

// resultValue: the value the inlined callee hands back in result slot k, when all its non-failing
// returns hand back the same term there.
func (hf *FuncFacts) resultValue(k int) (ssa.Value, bool) {
	var first ssa.Value
	var firstS string
	for _, ri := range hf.rets {
		if ri.kind == retFail || ri.ins == nil {
			continue
		}
		if k >= len(ri.ins.Results) {
			return nil, false
		}
		v := unspill(ri.ins.Results[k], ri.blk)
		s := hf.c.term(v)
		if first == nil {
			first, firstS = v, s
		} else if s != firstS {
			return nil, false
		}
	}
	return first, first != nil
}

// inlinedResult renders result slot k of a call of an unreviewed helper in the caller's terms.
func (c *Canon) inlinedResult(call *ssa.Call, k int, d int) (string, bool) {
	hf := c.inlined(call.Common())
	if hf == nil {
		return "", false
	}
	n := hf.fn.Signature.Results().Len()
	if hf.mode == rejErr && k == n-1 {
		return "", false // the error slot stays the call's own result
	}
	v, ok := hf.resultValue(k)
	if !ok {
		return "", false
	}
	return hf.c.termD(v, d+1), true
}

// acceptBlocks: blocks of the non-failing returns.
func (f *FuncFacts) acceptBlocks() []*ssa.BasicBlock {
	var out []*ssa.BasicBlock
	for _, ri := range f.rets {
		if ri.kind != retFail {
			out = append(out, ri.blk)
		}
	}
	return out
}

// always: the block is passed on every path to every non-failing return of the function.
func (f *FuncFacts) always(b *ssa.BasicBlock) bool {
	for _, a := range f.acceptBlocks() {
		if a != b && !b.Dominates(a) {
			return false
		}
	}
	return true
}

// innerAlways: an event spliced in from a helper happens on every successful pass through it.
func innerAlways(e *Event) bool {
	for e.inner != nil {
		if !e.inl.always(e.inner.blk) {
			return false
		}
		e = e.inner
	}
	return true
}

// propagatedCall: block b ends in `if <call result> != nil` and edge k is the non-nil side.
func propagatedCall(iff *ssa.If, k int) *ssa.Call {
	bo, ok := iff.Cond.(*ssa.BinOp)
	if !ok {
		return nil
	}
	var x ssa.Value
	if isNilConst(bo.Y) {
		x = bo.X
	} else if isNilConst(bo.X) {
		x = bo.Y
	} else {
		return nil
	}
	switch {
	case bo.Op.String() == "!=" && k == 0, bo.Op.String() == "==" && k == 1:
	default:
		return nil
	}
	switch v := x.(type) {
	case *ssa.Call:
		return v
	case *ssa.Extract:
		if call, ok := v.Tuple.(*ssa.Call); ok && v.Index == call.Type().(*types.Tuple).Len()-1 {
			return call
		}
	}
	return nil
}

func isNilConst(v ssa.Value) bool {
	k, ok := v.(*ssa.Const)
	return ok && k.Value == nil
}

// composeGuards replaces "the helper failed => the helper's error" by the helper's own rejections,
// each under the caller's conditions at the call.
func (f *FuncFacts) composeGuards(gs []*Guard) []*Guard {
	var out []*Guard
	for _, g := range gs {
		iff := f.ifOf(g.blk)
		var call *ssa.Call
		if iff != nil {
			call = propagatedCall(iff, g.rejSucc)
		}
		var hf *FuncFacts
		if call != nil {
			hf = f.c.inlined(call.Common())
		}
		name := ""
		if hf != nil {
			name = f.c.calleeName(call.Common())
		}
		if hf == nil || hf.mode != rejErr || !(g.Code == name || strings.HasPrefix(g.Code, name+":")) {
			out = append(out, g)
			continue
		}
		var base []string
		for _, c := range g.ctx {
			base = append(base, c.atom)
		}
		hgs := append([]*Guard{}, hf.Guards()...)
		// `return g(x)` in the helper: the helper fails there exactly when g does
		for _, ri := range hf.rets {
			if ri.kind != retForward || ri.ins == nil {
				continue
			}
			v := unspill(ri.ins.Results[len(ri.ins.Results)-1], ri.blk)
			rej, _ := hf.rejEdges()
			var atoms []string
			for _, c := range hf.context(ri.blk, rej) {
				atoms = append(atoms, c.atom)
			}
			xs, ys := hf.c.term(v), "nil"
			if xs > ys {
				xs, ys = ys, xs
			}
			atoms = append(atoms, xs+" != "+ys)
			hgs = append(hgs, &Guard{Fn: hf.fn.String(), Atoms: simplifyAtoms(atoms), Code: hf.errCode(v), Pos: ri.ins.Pos(), blk: ri.blk})
		}
		if len(hgs) == 0 {
			out = append(out, g)
			continue
		}
		for _, hg := range hgs {
			atoms := append(append([]string{}, base...), hg.Atoms...)
			ng := &Guard{Fn: g.Fn, Atoms: simplifyAtoms(atoms), Code: hg.Code, Pos: g.Pos, blk: g.blk, rejSucc: g.rejSucc,
				ctx: g.ctx, Avoid: g.Avoid, noAfter: hg.noAfter || !hf.always(hg.blk)}
			if ng.Avoid == "" {
				ng.Avoid = hg.Avoid
			}
			out = append(out, ng)
		}
	}
	return out
}

// isUnreviewed: a named btcd function that did not exist when the tables were frozen.
func (p *Program) isUnreviewed(fn *ssa.Function) bool {
	loadKnownFuncs()
	if knownFuncs == nil || fn == nil || fn.Synthetic != "" || fn.Parent() != nil || fn.Pkg == nil {
		return false
	}
	return strings.HasPrefix(fn.Pkg.Pkg.Path(), btcdPrefix) && !isKnownFunc(funcID(fn)) && renamedFrom[fn] == ""
}

// attribute: the reviewed functions an access inside fn is charged to. A reviewed function answers
// for itself; an unreviewed helper that is only ever called statically is charged to its callers
// (transitively), so moving a write into a new helper keeps it with the owner that calls the helper,
// while a new helper called from anywhere else shows up as that caller.
func (p *Program) attribute(fn *ssa.Function, depth int) []*ssa.Function {
	if !p.isUnreviewed(fn) || depth > maxInlineDepth {
		return []*ssa.Function{fn}
	}
	set := map[*ssa.Function]bool{}
	for caller := range allFuncs(p) {
		if caller.Blocks == nil {
			continue
		}
		for _, b := range caller.Blocks {
			for _, in := range b.Instrs {
				var ops []*ssa.Value
				for _, op := range in.Operands(ops) {
					if *op != ssa.Value(fn) {
						continue
					}
					ci, isCall := in.(ssa.CallInstruction)
					if !isCall || ci.Common().Value != ssa.Value(fn) {
						return []*ssa.Function{fn} // used as a value: no fixed set of callers
					}
					if _, isGo := in.(*ssa.Go); isGo {
						return []*ssa.Function{fn}
					}
					set[caller] = true
				}
			}
		}
	}
	if len(set) == 0 {
		return []*ssa.Function{fn}
	}
	out := map[*ssa.Function]bool{}
	for c := range set {
		if c == fn {
			continue
		}
		for _, o := range p.attribute(c, depth+1) {
			out[o] = true
		}
	}
	var fs []*ssa.Function
	for f := range out {
		fs = append(fs, f)
	}
	sort.Slice(fs, func(i, j int) bool { return fs[i].String() < fs[j].String() })
	if len(fs) == 0 {
		return []*ssa.Function{fn}
	}
	return fs
}

// ---- renamed struct fields --------------------------------------------------
//
// rules/fields.known lists every named struct type of the btcd modules with its fields (name and
// type, in order). A struct that still has the same field types in the same order but other names
// at some positions has had those fields renamed: terms, field anchors and ownership tables keep
// using the reviewed name (printed as a note).

var renamedField = map[*types.Var]string{} // field object -> the name it was reviewed under

func fieldDisplayName(v *types.Var) string {
	if old, ok := renamedField[v]; ok {
		return old
	}
	return v.Name()
}

// listFields prints "pkg.T <TAB> name:type|name:type…" for every named struct type of btcd.
func listFields(p *Program) []string {
	set := map[string]bool{}
	eachStruct(p, func(id string, st *types.Struct) {
		var fs []string
		for i := 0; i < st.NumFields(); i++ {
			fs = append(fs, st.Field(i).Name()+":"+st.Field(i).Type().String())
		}
		set[id+"\t"+strings.Join(fs, "|")] = true
	})
	var out []string
	for s := range set {
		out = append(out, s)
	}
	sort.Strings(out)
	return out
}

func eachStruct(p *Program, f func(id string, st *types.Struct)) {
	for _, pr := range []*Program{p, p.V2} {
		if pr == nil {
			continue
		}
		for path, pk := range pr.All {
			if !strings.HasPrefix(path, btcdPrefix) || pk.Types == nil || p.progFor(path) != pr {
				continue
			}
			sc := pk.Types.Scope()
			for _, n := range sc.Names() {
				tn, ok := sc.Lookup(n).(*types.TypeName)
				if !ok || tn.IsAlias() {
					continue
				}
				if st, ok := tn.Type().Underlying().(*types.Struct); ok {
					f(path+"."+n, st)
				}
			}
		}
	}
}

func detectFieldRenames(p *Program) {
	fh, err := os.Open(filepath.Join(verifDir(), "rules", "fields.known"))
	if err != nil {
		return
	}
	defer fh.Close()
	known := map[string][]string{}
	sc := bufio.NewScanner(fh)
	sc.Buffer(make([]byte, 1<<20), 1<<20)
	for sc.Scan() {
		parts := strings.SplitN(sc.Text(), "\t", 2)
		if len(parts) == 2 && parts[1] != "" {
			known[parts[0]] = strings.Split(parts[1], "|")
		}
	}
	var notes []string
	eachStruct(p, func(id string, st *types.Struct) {
		old, ok := known[id]
		if !ok || len(old) != st.NumFields() {
			return
		}
		type pair struct {
			v   *types.Var
			old string
		}
		var ps []pair
		names := map[string]bool{}
		for i := 0; i < st.NumFields(); i++ {
			names[st.Field(i).Name()] = true
		}
		for i, o := range old {
			k := strings.Index(o, ":")
			if k < 0 || o[k+1:] != st.Field(i).Type().String() {
				return // a type changed: not a pure rename
			}
			if o[:k] != st.Field(i).Name() {
				if names[o[:k]] {
					return // the old name still exists elsewhere: fields were reordered, not renamed
				}
				ps = append(ps, pair{st.Field(i), o[:k]})
			}
		}
		for _, pr := range ps {
			if _, dup := renamedField[pr.v]; !dup {
				renamedField[pr.v] = pr.old
				notes = append(notes, "note: field "+id+"."+pr.v.Name()+" is taken as the reviewed field "+pr.old+" under a new name (same struct, position and type)")
			}
		}
	})
	sort.Strings(notes)
	for _, n := range notes {
		fmt.Println(n)
	}
}
