package main

import "golang.org/x/tools/go/ssa"

type sel = func(fn *ssa.Function) bool

// E8 scopes per property: the files whose functions must not lose an error.
func init() {
	extra("__errs_init", nil)
	delete(extras, "__errs_init")
	bc := btcd + "/blockchain"
	errRuleP := func(prop string, mk func(p *Program) []sel) {
		extra(prop, func(p *Program, r *Report) {
			allow, err := loadErrAllow(prop)
			if err != nil {
				r.fail("err/allow-list", "rules/errs.allow", "", err.Error())
				return
			}
			sels := mk(p)
			any := func(fn *ssa.Function) bool {
				for _, s := range sels {
					if s(fn) {
						return true
					}
				}
				return false
			}
			ruleErrDisciplineOnce(p, r, any, allow)
			ruleErrDisciplineOnce(p.V2, r, any, allow)
			for k, why := range allow {
				if !errAllowUsed[prop+k] && len(why) > 0 && why[0] != '?' {
					r.fail("err/allow-list", k, "", "listed exception no longer occurs (stale table)")
				}
			}
		})
	}
	errRuleP("C01", func(p *Program) []sel {
		return []sel{inFiles(p, bc, "validate.go", "weight.go", "merkle.go", "accept.go", "process.go", "scriptval.go")}
	})
	errRuleP("C02", func(p *Program) []sel { return []sel{inFiles(p, bc, "chain.go", "blockindex.go", "chainview.go")} })
	errRuleP("C03", func(p *Program) []sel { return []sel{inFiles(p, bc, "utxoviewpoint.go")} })
	errRuleP("C04", func(p *Program) []sel { return []sel{inFiles(p, bc, "utxocache.go", "chainio.go")} })
	errRuleP("C05", func(p *Program) []sel {
		return []sel{inFiles(p, btcd+"/database/ffldb"), inFiles(p, btcd+"/database/internal/treap")}
	})
	errRuleP("C06", func(p *Program) []sel {
		return []sel{inFiles(p, btcd+"/txscript/v2", "engine.go", "opcode.go", "stack.go", "scriptnum.go", "tokenizer.go", "sigvalidate.go")}
	})
	errRuleP("C07", func(p *Program) []sel {
		return []sel{inFiles(p, btcd+"/txscript/v2", "sighash.go", "hashcache.go", "sigcache.go", "sign.go")}
	})
	errRuleP("C08", func(p *Program) []sel { return []sel{inFiles(p, wirePkg)} })
	errRuleP("C10", func(p *Program) []sel { return []sel{inFiles(p, mempoolPkg, "mempool.go", "policy.go")} })
	errRuleP("C11", func(p *Program) []sel {
		return []sel{inFiles(p, btcd+"/btcec/v2/schnorr/musig2"), inFiles(p, btcd+"/btcec/v2/schnorr"), inFiles(p, btcd+"/btcec/v2/ecdsa"), inFiles(p, btcd+"/btcec/v2", "ciphering.go", "pubkey.go")}
	})
	errRuleP("C12", func(p *Program) []sel { return []sel{inFiles(p, btcd+"/mining", "mining.go")} })
	errRuleP("C13", func(p *Program) []sel { return []sel{inFiles(p, bc, "weight.go", "merkle.go", "rolling_merkle.go")} })
	errRuleP("C14", func(p *Program) []sel { return []sel{inFiles(p, bc, "thresholdstate.go", "versionbits.go")} })
	errRuleP("C15", func(p *Program) []sel { return []sel{inFiles(p, bc, "compress.go", "chainio.go", "upgrade.go")} })
	errRuleP("C16", func(p *Program) []sel {
		return []sel{inFiles(p, btcd+"/address/v2"), inFiles(p, btcd+"/address/v2/bech32"), inFiles(p, btcd+"/address/v2/base58"), inFiles(p, btcd+"/btcutil/v2/hdkeychain"), inFiles(p, btcd+"/txscript/v2", "standard.go", "pkscript.go", "taproot.go")}
	})
	errRuleP("C18", func(p *Program) []sel { return []sel{inFiles(p, btcd+"/peer", "peer.go")} })
	errRuleP("C19", func(p *Program) []sel { return []sel{inFiles(p, btcd+"/v2transport"), inFiles(p, btcd+"/btcec/v2/ellswift")} })
	errRuleP("C20", func(p *Program) []sel {
		return []sel{inFiles(p, btcd+"/btcutil/v2/gcs"), inFiles(p, btcd+"/btcutil/v2/gcs/builder"), inFiles(p, btcd+"/btcutil/v2/bloom")}
	})
}
