package main

import (
	"go/token"

	"golang.org/x/tools/go/ssa"
)

// Loop shapes that are the same loop written differently.
//
// go/ssa lowers `for range N` (and `for i := range N`) to a rotated loop: a pre-test `0 < N` in the
// block before the loop, the body as loop header, and the test `i+1 < N` at the latch. It is
// rendered exactly like `for i := 0; i < N; i++`: the pre-test edge is the loop condition each(#N),
// both exit edges are the exhaustion of the loop, and a phi at the exit that merges "initial value
// from the pre-test" with "next value from the latch" is the loop-carried value itself.

type rotLoop struct {
	pre, body, latch, done *ssa.BasicBlock
	phi                    *ssa.Phi
	bound                  ssa.Value
}

func (c *Canon) rotLoops() []*rotLoop {
	if c.rotDone {
		return c.rot
	}
	c.rotDone = true
	for _, b := range c.fn.Blocks {
		if rl := rotatedLoop(b); rl != nil {
			c.rot = append(c.rot, rl)
		}
	}
	return c.rot
}

func rotatedLoop(body *ssa.BasicBlock) *rotLoop {
	if len(body.Preds) != 2 {
		return nil
	}
	var pre, latch *ssa.BasicBlock
	for _, p := range body.Preds {
		if body.Dominates(p) {
			latch = p
		} else {
			pre = p
		}
	}
	if pre == nil || latch == nil || len(pre.Instrs) == 0 || len(latch.Instrs) == 0 {
		return nil
	}
	pif, ok1 := pre.Instrs[len(pre.Instrs)-1].(*ssa.If)
	lif, ok2 := latch.Instrs[len(latch.Instrs)-1].(*ssa.If)
	if !ok1 || !ok2 || pre.Succs[0] != body || latch.Succs[0] != body || pre.Succs[1] != latch.Succs[1] {
		return nil
	}
	pc, ok1 := pif.Cond.(*ssa.BinOp)
	lc, ok2 := lif.Cond.(*ssa.BinOp)
	if !ok1 || !ok2 || pc.Op != token.LSS || lc.Op != token.LSS {
		return nil
	}
	if k, ok := intConst(pc.X); !ok || k.Sign() != 0 {
		return nil
	}
	if !sameValue(pc.Y, lc.Y) {
		return nil
	}
	add, ok := stripConv(lc.X).(*ssa.BinOp)
	if !ok || add.Op != token.ADD {
		return nil
	}
	for _, in := range body.Instrs {
		ph, ok := in.(*ssa.Phi)
		if !ok {
			break
		}
		if !isInductionVar(ph) {
			continue
		}
		if (stripConv(add.X) == ssa.Value(ph) && isOne(add.Y)) || (stripConv(add.Y) == ssa.Value(ph) && isOne(add.X)) {
			return &rotLoop{pre: pre, body: body, latch: latch, done: pre.Succs[1], phi: ph, bound: lc.Y}
		}
	}
	return nil
}

func isOne(v ssa.Value) bool {
	k, ok := intConst(v)
	return ok && k.IsInt64() && k.Int64() == 1
}

func sameValue(a, b ssa.Value) bool {
	if a == b {
		return true
	}
	ka, ok1 := intConst(a)
	kb, ok2 := intConst(b)
	return ok1 && ok2 && ka.Cmp(kb) == 0
}

func (c *Canon) rotByPre(b *ssa.BasicBlock) *rotLoop {
	for _, rl := range c.rotLoops() {
		if rl.pre == b {
			return rl
		}
	}
	return nil
}

func (c *Canon) rotByLatch(b *ssa.BasicBlock) *rotLoop {
	for _, rl := range c.rotLoops() {
		if rl.latch == b {
			return rl
		}
	}
	return nil
}

type rotExit struct {
	carried *ssa.Phi
	rl      *rotLoop
}

// rotExits: v sits in the exit block of one or more rotated loops and merges, from a loop's
// pre-test and latch, exactly the two inputs of a loop-carried phi of its body; those phis are
// returned with their loops.
func (c *Canon) rotExits(v *ssa.Phi) []rotExit {
	var out []rotExit
	for _, rl := range c.rotLoops() {
		if rl.done != v.Block() {
			continue
		}
		var fromPre, fromLatch ssa.Value
		for i, p := range v.Block().Preds {
			if p == rl.pre {
				fromPre = v.Edges[i]
			}
			if p == rl.latch {
				fromLatch = v.Edges[i]
			}
		}
		if fromPre == nil || fromLatch == nil {
			continue
		}
		for _, in := range rl.body.Instrs {
			ph, ok := in.(*ssa.Phi)
			if !ok {
				break
			}
			var bp, bl ssa.Value
			for i, p := range rl.body.Preds {
				if p == rl.pre {
					bp = ph.Edges[i]
				}
				if p == rl.latch {
					bl = ph.Edges[i]
				}
			}
			if bp == fromPre && bl == fromLatch {
				out = append(out, rotExit{ph, rl})
				break
			}
		}
	}
	return out
}

// rotExitPhi: the single-loop case of rotExits.
func (c *Canon) rotExitPhi(v *ssa.Phi) (*ssa.Phi, *rotLoop) {
	if xs := c.rotExits(v); len(xs) > 0 {
		return xs[0].carried, xs[0].rl
	}
	return nil, nil
}

// eachAtom names a counted loop by what it runs over.
func (c *Canon) eachAtom(bound ssa.Value) string {
	y := stripConv(bound)
	if call, ok := y.(*ssa.Call); ok {
		if bi, ok := call.Common().Value.(*ssa.Builtin); ok && bi.Name() == "len" {
			return "each(" + c.term(call.Common().Args[0]) + ")"
		}
	}
	return "each(#" + c.term(y) + ")"
}

// countdownStart: v is the counter of `for i := S; i > 0; i--` tested by cond on the staying edge;
// S is returned. The loop runs S times, like `for range S`.
func countdownStart(cond *ssa.BinOp) (ssa.Value, bool) {
	var x ssa.Value
	switch {
	case cond.Op == token.GTR && isZero(cond.Y), cond.Op == token.GEQ && isOne(cond.Y):
		x = cond.X
	case cond.Op == token.LSS && isZero(cond.X), cond.Op == token.LEQ && isOne(cond.X):
		x = cond.Y
	default:
		return nil, false
	}
	ph, ok := stripConv(x).(*ssa.Phi)
	if !ok || len(ph.Edges) != 2 {
		return nil, false
	}
	var start ssa.Value
	step := false
	for i, e := range ph.Edges {
		pred := ph.Block().Preds[i]
		if ph.Block().Dominates(pred) {
			b, ok := stripConv(e).(*ssa.BinOp)
			if !ok {
				return nil, false
			}
			if b.Op == token.SUB && stripConv(b.X) == ssa.Value(ph) && isOne(b.Y) {
				step = true
			}
			if b.Op == token.ADD && stripConv(b.X) == ssa.Value(ph) {
				if k, ok := intConst(b.Y); ok && k.IsInt64() && k.Int64() == -1 {
					step = true
				}
			}
		} else {
			start = e
		}
	}
	if start == nil || !step {
		return nil, false
	}
	return start, true
}

func isZero(v ssa.Value) bool {
	k, ok := intConst(v)
	return ok && k.Sign() == 0
}
