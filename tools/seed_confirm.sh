#!/bin/bash
# seed_confirm.sh <Cxx> <n> <demo dest dir inside repo> "<demo cmd>" "<existing-suite cmd>"
# Confirms in the scratch worktree /tmp/seed/<Cxx>: demo passes pristine, fails with patch, suite passes with patch.
# Then stores the seed under /verif/seeded/<Cxx>-<n>/.
set -u
P=$1; N=$2; DEST=$3; DEMO=$4; SUITE=$5
W=${SEEDROOT:-/tmp/seed}/$P; S=$W/_seed/$N; OUT=${OUTNAME:-$P-$N}
export GOFLAGS=-mod=mod GOPROXY=off
cd $W || exit 2
git checkout -q -- . ; git clean -fdq -e _seed
demos=$(ls $S | grep -v -e patch.diff -e demo.md -e meta.json -e "\.log$")
cpdemo() { for f in $demos; do cp $S/$f $W/$DEST/; done; }
rmdemo() { for f in $demos; do rm -f $W/$DEST/$f; done; }
cpdemo
( eval "$DEMO" ) > /tmp/seedlogs/$P.$N.pristine.log 2>&1; a=$?
git apply $S/patch.diff || { echo "PATCH DOES NOT APPLY"; exit 2; }
( eval "$DEMO" ) > /tmp/seedlogs/$P.$N.patched.log 2>&1; b=$?
rmdemo
( eval "$SUITE" ) > /tmp/seedlogs/$P.$N.suite.log 2>&1; c=$?
git checkout -q -- . ; git clean -fdq -e _seed
echo "$P-$N: demo pristine exit=$a (want 0), demo patched exit=$b (want !=0), suite patched exit=$c (want 0)"
if [ $a -eq 0 ] && [ $b -ne 0 ] && [ $c -eq 0 ]; then
  D=/verif/seeded/$OUT; mkdir -p $D; cp $S/* $D/
  python3 - "$D" "$DEST" "$DEMO" "$SUITE" <<'PY'
import json,sys
d,dest,demo,suite=sys.argv[1:5]
m=json.load(open(d+'/meta.json'))
m['confirmed']={'demo_dest':dest,'demo_cmd':demo,'suite_cmd':suite,'result':'demo passes on pristine tree, fails with patch; existing suite passes with patch (confirmed in a scratch worktree by tools/seed_confirm.sh)'}
json.dump(m,open(d+'/meta.json','w'),indent=1)
PY
  echo "stored $D"
else
  tail -5 /tmp/seedlogs/$P.$N.*.log
fi
