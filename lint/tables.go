package main

import (
	"fmt"
	"go/ast"
	"go/constant"
	"go/token"
	"go/types"
	"sort"
	"strings"

	"golang.org/x/tools/go/packages"
)

// E5 — tables, registries, exhaustiveness: composite literals, map literals and case
// sets are evaluated statically (constants by value) and compared with protocol tables.

func findVarDecl(pk *packages.Package, name string) (ast.Expr, token.Pos) {
	for _, f := range pk.Syntax {
		for _, d := range f.Decls {
			gd, ok := d.(*ast.GenDecl)
			if !ok || gd.Tok != token.VAR {
				continue
			}
			for _, sp := range gd.Specs {
				vs := sp.(*ast.ValueSpec)
				for i, n := range vs.Names {
					if n.Name == name && i < len(vs.Values) {
						return vs.Values[i], n.Pos()
					}
				}
			}
		}
	}
	return nil, token.NoPos
}

func constOf(pk *packages.Package, e ast.Expr) (constant.Value, bool) {
	tv, ok := pk.TypesInfo.Types[e]
	if !ok || tv.Value == nil {
		return nil, false
	}
	return tv.Value, true
}

func exprText(e ast.Expr) string {
	return types.ExprString(e)
}

// evalLitEntry renders an expression as its constant value if it has one, else as source text
// with string literals kept (types.ExprString elides nothing for basic literals).
func evalExpr(pk *packages.Package, e ast.Expr) string {
	if v, ok := constOf(pk, e); ok {
		switch v.Kind() {
		case constant.String:
			return constant.StringVal(v)
		default:
			return v.ExactString()
		}
	}
	switch x := e.(type) {
	case *ast.Ident:
		return x.Name
	case *ast.SelectorExpr:
		return exprText(x)
	case *ast.CallExpr:
		var args []string
		for _, a := range x.Args {
			args = append(args, evalExpr(pk, a))
		}
		return exprText(x.Fun) + "(" + strings.Join(args, ",") + ")"
	case *ast.UnaryExpr:
		return x.Op.String() + evalExpr(pk, x.X)
	case *ast.CompositeLit:
		var els []string
		for _, el := range x.Elts {
			if kv, ok := el.(*ast.KeyValueExpr); ok {
				els = append(els, evalExpr(pk, kv.Key)+":"+evalExpr(pk, kv.Value))
			} else {
				els = append(els, evalExpr(pk, el))
			}
		}
		if len(els) > 12 {
			els = append(els[:12], "…")
		}
		return "{" + strings.Join(els, ",") + "}"
	}
	return exprText(e)
}

// structLitFields evaluates a keyed struct composite literal into field -> value text.
func structLitFields(pk *packages.Package, lit *ast.CompositeLit) map[string]string {
	out := map[string]string{}
	for _, el := range lit.Elts {
		kv, ok := el.(*ast.KeyValueExpr)
		if !ok {
			continue
		}
		k, ok := kv.Key.(*ast.Ident)
		if !ok {
			continue
		}
		out[k.Name] = evalExpr(pk, kv.Value)
	}
	return out
}

// ---- opcode table (C06) ----------------------------------------------------

func ruleOpcodeTable(p *Program, r *Report) {
	const ts = btcd + "/txscript/v2"
	pk := p.Pkg(ts)
	if pk == nil {
		r.fail("anchor", "txscript", "", "package not loaded")
		return
	}
	e, pos := findVarDecl(pk, "opcodeArray")
	lit, ok := e.(*ast.CompositeLit)
	if !ok {
		r.fail("anchor", "txscript.opcodeArray", "", "composite literal not found")
		return
	}
	type ent struct {
		value, length int64
		name, handler string
		pos           token.Pos
	}
	tab := map[int64]ent{}
	for _, el := range lit.Elts {
		kv, ok := el.(*ast.KeyValueExpr)
		if !ok {
			continue
		}
		kc, ok := constOf(pk, kv.Key)
		if !ok {
			continue
		}
		k, _ := constant.Int64Val(kc)
		inner, ok := kv.Value.(*ast.CompositeLit)
		if !ok || len(inner.Elts) != 4 {
			r.fail("opcode-table", fmt.Sprintf("opcode 0x%02x", k), p.pos(kv.Pos()), "entry is not a 4-field literal")
			continue
		}
		var en ent
		if v, ok := constOf(pk, inner.Elts[0]); ok {
			en.value, _ = constant.Int64Val(v)
		} else {
			en.value = -1
		}
		if v, ok := constOf(pk, inner.Elts[1]); ok {
			en.name = constant.StringVal(v)
		}
		if v, ok := constOf(pk, inner.Elts[2]); ok {
			en.length, _ = constant.Int64Val(v)
		}
		en.handler = exprText(inner.Elts[3])
		en.pos = kv.Pos()
		if _, dup := tab[k]; dup {
			r.fail("opcode-table", fmt.Sprintf("opcode 0x%02x", k), p.pos(kv.Pos()), "duplicate entry")
		}
		tab[k] = en
	}
	// protocol table: value -> handler (Bitcoin Core script/script.h + interpreter.cpp; BIP65/112/342)
	want := map[int64]string{0x00: "opcodeFalse", 0x4f: "opcode1Negate", 0x50: "opcodeReserved", 0x61: "opcodeNop", 0x62: "opcodeReserved",
		0x63: "opcodeIf", 0x64: "opcodeNotIf", 0x65: "opcodeReserved", 0x66: "opcodeReserved", 0x67: "opcodeElse", 0x68: "opcodeEndif",
		0x69: "opcodeVerify", 0x6a: "opcodeReturn", 0x6b: "opcodeToAltStack", 0x6c: "opcodeFromAltStack", 0x6d: "opcode2Drop", 0x6e: "opcode2Dup",
		0x6f: "opcode3Dup", 0x70: "opcode2Over", 0x71: "opcode2Rot", 0x72: "opcode2Swap", 0x73: "opcodeIfDup", 0x74: "opcodeDepth", 0x75: "opcodeDrop",
		0x76: "opcodeDup", 0x77: "opcodeNip", 0x78: "opcodeOver", 0x79: "opcodePick", 0x7a: "opcodeRoll", 0x7b: "opcodeRot", 0x7c: "opcodeSwap",
		0x7d: "opcodeTuck", 0x82: "opcodeSize", 0x87: "opcodeEqual", 0x88: "opcodeEqualVerify", 0x89: "opcodeReserved", 0x8a: "opcodeReserved",
		0x8b: "opcode1Add", 0x8c: "opcode1Sub", 0x8f: "opcodeNegate", 0x90: "opcodeAbs", 0x91: "opcodeNot", 0x92: "opcode0NotEqual", 0x93: "opcodeAdd",
		0x94: "opcodeSub", 0x9a: "opcodeBoolAnd", 0x9b: "opcodeBoolOr", 0x9c: "opcodeNumEqual", 0x9d: "opcodeNumEqualVerify", 0x9e: "opcodeNumNotEqual",
		0x9f: "opcodeLessThan", 0xa0: "opcodeGreaterThan", 0xa1: "opcodeLessThanOrEqual", 0xa2: "opcodeGreaterThanOrEqual", 0xa3: "opcodeMin",
		0xa4: "opcodeMax", 0xa5: "opcodeWithin", 0xa6: "opcodeRipemd160", 0xa7: "opcodeSha1", 0xa8: "opcodeSha256", 0xa9: "opcodeHash160",
		0xaa: "opcodeHash256", 0xab: "opcodeCodeSeparator", 0xac: "opcodeCheckSig", 0xad: "opcodeCheckSigVerify", 0xae: "opcodeCheckMultiSig",
		0xaf: "opcodeCheckMultiSigVerify", 0xb0: "opcodeNop", 0xb1: "opcodeCheckLockTimeVerify", 0xb2: "opcodeCheckSequenceVerify", 0xba: "opcodeCheckSigAdd"}
	for _, d := range []int64{0x7e, 0x7f, 0x80, 0x81, 0x83, 0x84, 0x85, 0x86, 0x8d, 0x8e, 0x95, 0x96, 0x97, 0x98, 0x99} {
		want[d] = "opcodeDisabled"
	}
	for v := int64(0x01); v <= 0x4e; v++ {
		want[v] = "opcodePushData"
	}
	for v := int64(0x51); v <= 0x60; v++ {
		want[v] = "opcodeN"
	}
	for v := int64(0xb3); v <= 0xb9; v++ {
		want[v] = "opcodeNop"
	}
	for v := int64(0xbb); v <= 0xff; v++ {
		want[v] = "opcodeInvalid"
	}
	for v := int64(0); v < 256; v++ {
		en, ok := tab[v]
		cons := fmt.Sprintf("opcode 0x%02x", v)
		if !ok {
			r.fail("opcode-table", cons, p.pos(pos), "no entry: executing this opcode would call a nil handler")
			continue
		}
		wantLen := int64(1)
		switch {
		case v >= 0x01 && v <= 0x4b:
			wantLen = v + 1
		case v == 0x4c:
			wantLen = -1
		case v == 0x4d:
			wantLen = -2
		case v == 0x4e:
			wantLen = -4
		}
		var bad []string
		if en.value != v {
			bad = append(bad, fmt.Sprintf("value field is 0x%02x", en.value))
		}
		if en.length != wantLen {
			bad = append(bad, fmt.Sprintf("length %d, protocol %d", en.length, wantLen))
		}
		if en.handler != want[v] {
			bad = append(bad, fmt.Sprintf("handler %s, protocol %s", en.handler, want[v]))
		}
		if len(bad) > 0 {
			r.fail("opcode-table", cons+" "+en.name, p.pos(en.pos), strings.Join(bad, "; "))
		} else {
			r.pass("opcode-table", cons+" "+en.name, p.pos(en.pos), en.handler)
		}
	}
	r.need("opcode-table", 256)

	// predicate case sets
	caseSet := func(fname string) (map[int64]bool, token.Pos) {
		fn := p.Func(ts + "." + fname)
		if fn == nil {
			return nil, token.NoPos
		}
		d, ok := fn.Syntax().(*ast.FuncDecl)
		if !ok {
			return nil, token.NoPos
		}
		set := map[int64]bool{}
		ast.Inspect(d.Body, func(n ast.Node) bool {
			cc, ok := n.(*ast.CaseClause)
			if !ok {
				return true
			}
			retTrue := false
			for _, st := range cc.Body {
				if ret, ok := st.(*ast.ReturnStmt); ok && len(ret.Results) == 1 {
					if v, ok := constOf(pk, ret.Results[0]); ok && v.Kind() == constant.Bool && constant.BoolVal(v) {
						retTrue = true
					}
				}
			}
			if retTrue {
				for _, e := range cc.List {
					if v, ok := constOf(pk, e); ok {
						k, _ := constant.Int64Val(v)
						set[k] = true
					}
				}
			}
			return true
		})
		return set, d.Pos()
	}
	cmpSet := func(fname string, want []int64, ref string) {
		got, pos := caseSet(fname)
		if got == nil {
			r.fail("anchor", "txscript."+fname, "", "predicate not found")
			return
		}
		ws := map[int64]bool{}
		for _, w := range want {
			ws[w] = true
		}
		var diff []string
		for k := range ws {
			if !got[k] {
				diff = append(diff, fmt.Sprintf("missing 0x%02x", k))
			}
		}
		for k := range got {
			if !ws[k] {
				diff = append(diff, fmt.Sprintf("extra 0x%02x", k))
			}
		}
		sort.Strings(diff)
		if len(diff) > 0 {
			r.fail("opcode-set", "txscript."+fname, p.pos(pos), strings.Join(diff, ", ")+" ["+ref+"]")
		} else {
			r.pass("opcode-set", "txscript."+fname, p.pos(pos), fmt.Sprintf("%d opcodes [%s]", len(want), ref))
		}
	}
	cmpSet("isOpcodeDisabled", []int64{0x7e, 0x7f, 0x80, 0x81, 0x83, 0x84, 0x85, 0x86, 0x8d, 0x8e, 0x95, 0x96, 0x97, 0x98, 0x99}, "the 15 opcodes disabled since 2010")
	cmpSet("isOpcodeAlwaysIllegal", []int64{0x65, 0x66}, "OP_VERIF, OP_VERNOTIF")
	cmpSet("isOpcodeConditional", []int64{0x63, 0x64, 0x67, 0x68}, "IF, NOTIF, ELSE, ENDIF")

	// BIP342 OP_SUCCESS set
	se, spos := findVarDecl(pk, "successOpcodes")
	if sl, ok := se.(*ast.CompositeLit); ok {
		got := map[int64]bool{}
		for _, el := range sl.Elts {
			if kv, ok := el.(*ast.KeyValueExpr); ok {
				if v, ok := constOf(pk, kv.Key); ok {
					k, _ := constant.Int64Val(v)
					got[k] = true
				}
			}
		}
		want := map[int64]bool{80: true, 98: true}
		for _, rg := range [][2]int64{{126, 129}, {131, 134}, {137, 138}, {141, 142}, {149, 153}, {187, 254}} {
			for v := rg[0]; v <= rg[1]; v++ {
				want[v] = true
			}
		}
		var diff []string
		for k := range want {
			if !got[k] {
				diff = append(diff, fmt.Sprintf("missing %d", k))
			}
		}
		for k := range got {
			if !want[k] {
				diff = append(diff, fmt.Sprintf("extra %d", k))
			}
		}
		sort.Strings(diff)
		if len(diff) > 0 {
			r.fail("opcode-set", "txscript.successOpcodes", p.pos(spos), strings.Join(diff, ", ")+" [BIP342]")
		} else {
			r.pass("opcode-set", "txscript.successOpcodes", p.pos(spos), fmt.Sprintf("%d opcodes [BIP342: 80, 98, 126-129, 131-134, 137-138, 141-142, 149-153, 187-254]", len(want)))
		}
	} else {
		r.fail("anchor", "txscript.successOpcodes", "", "map literal not found")
	}
}

// ---- named constants ---------------------------------------------------------

// ruleConstants: package-level constants (or constant-valued vars) equal the protocol values.
func ruleConstants(p *Program, r *Report, pkgPath string, want map[string]string, ref string) {
	pk := p.Pkg(pkgPath)
	if pk == nil {
		r.fail("anchor", pkgPath, "", "package not loaded")
		return
	}
	var names []string
	for n := range want {
		names = append(names, n)
	}
	sort.Strings(names)
	for _, n := range names {
		cons := short(pkgPath) + "." + n
		obj := pk.Types.Scope().Lookup(n)
		if obj == nil {
			r.fail("constant", cons, "", "not found")
			continue
		}
		got := ""
		switch o := obj.(type) {
		case *types.Const:
			if o.Val().Kind() == constant.String {
				got = constant.StringVal(o.Val())
			} else {
				got = o.Val().ExactString()
			}
		case *types.Var:
			if e, _ := findVarDecl(pk, n); e != nil {
				got = evalExpr(pk, e)
			}
		}
		if got == want[n] {
			r.pass("constant", cons, p.pos(obj.Pos()), got+" ["+ref+"]")
		} else {
			r.fail("constant", cons, p.pos(obj.Pos()), fmt.Sprintf("is %s, protocol value %s [%s]", got, want[n], ref))
		}
	}
}

// ruleParamsTable: fields of a chaincfg.Params literal equal the protocol table.
func ruleParamsTable(p *Program, r *Report, varName string, want map[string]string) {
	const cc = btcd + "/chaincfg/v2"
	pk := p.Pkg(cc)
	if pk == nil {
		r.fail("anchor", "chaincfg", "", "package not loaded")
		return
	}
	e, pos := findVarDecl(pk, varName)
	lit, ok := e.(*ast.CompositeLit)
	if !ok {
		r.fail("anchor", "chaincfg."+varName, "", "Params literal not found")
		return
	}
	got := structLitFields(pk, lit)
	var names []string
	for n := range want {
		names = append(names, n)
	}
	sort.Strings(names)
	for _, n := range names {
		cons := "chaincfg." + varName + "." + n
		g, ok := got[n]
		if !ok {
			g = "<zero>"
		}
		if g == want[n] {
			r.pass("params", cons, p.pos(pos), g)
		} else {
			r.fail("params", cons, p.pos(pos), fmt.Sprintf("is %s, protocol value %s", g, want[n]))
		}
	}
}

// paramsDump prints the evaluated fields (discover mode).
func paramsDump(p *Program, varName string) {
	const cc = btcd + "/chaincfg/v2"
	pk := p.Pkg(cc)
	e, _ := findVarDecl(pk, varName)
	lit, ok := e.(*ast.CompositeLit)
	if !ok {
		fmt.Println("no literal", varName)
		return
	}
	got := structLitFields(pk, lit)
	var names []string
	for n := range got {
		names = append(names, n)
	}
	sort.Strings(names)
	for _, n := range names {
		fmt.Printf("%s.%s = %s\n", varName, n, got[n])
	}
}

// ruleDeployments: version-bits deployment tables of mainnet and testnet3 (BIP9 parameters of
// BIP68/112/113, BIP141/143/147 and BIP341) equal Bitcoin Core's chainparams.
func ruleDeployments(p *Program, r *Report) {
	const cc = btcd + "/chaincfg/v2"
	pk := p.Pkg(cc)
	want := map[string]map[string]map[string]string{
		"MainNetParams": {
			"DeploymentCSV":     {"BitNumber": "0", "DeploymentStarter": "NewMedianTimeDeploymentStarter(time.Unix(1462060800,0))", "DeploymentEnder": "NewMedianTimeDeploymentEnder(time.Unix(1493596800,0))"},
			"DeploymentSegwit":  {"BitNumber": "1", "DeploymentStarter": "NewMedianTimeDeploymentStarter(time.Unix(1479168000,0))", "DeploymentEnder": "NewMedianTimeDeploymentEnder(time.Unix(1510704000,0))"},
			"DeploymentTaproot": {"BitNumber": "2", "DeploymentStarter": "NewMedianTimeDeploymentStarter(time.Unix(1619222400,0))", "DeploymentEnder": "NewMedianTimeDeploymentEnder(time.Unix(1628640000,0))", "CustomActivationThreshold": "1815", "MinActivationHeight": "709632"},
		},
		"TestNet3Params": {
			"DeploymentCSV":     {"BitNumber": "0", "DeploymentStarter": "NewMedianTimeDeploymentStarter(time.Unix(1456790400,0))", "DeploymentEnder": "NewMedianTimeDeploymentEnder(time.Unix(1493596800,0))"},
			"DeploymentSegwit":  {"BitNumber": "1", "DeploymentStarter": "NewMedianTimeDeploymentStarter(time.Unix(1462060800,0))", "DeploymentEnder": "NewMedianTimeDeploymentEnder(time.Unix(1493596800,0))"},
			"DeploymentTaproot": {"BitNumber": "2", "DeploymentStarter": "NewMedianTimeDeploymentStarter(time.Unix(1619222400,0))", "DeploymentEnder": "NewMedianTimeDeploymentEnder(time.Unix(1628640000,0))", "CustomActivationThreshold": "1512"},
		},
	}
	for _, net := range []string{"MainNetParams", "TestNet3Params"} {
		e, pos := findVarDecl(pk, net)
		lit, ok := e.(*ast.CompositeLit)
		if !ok {
			r.fail("anchor", "chaincfg."+net, "", "Params literal not found")
			continue
		}
		var deps *ast.CompositeLit
		for _, el := range lit.Elts {
			if kv, ok := el.(*ast.KeyValueExpr); ok {
				if id, ok := kv.Key.(*ast.Ident); ok && id.Name == "Deployments" {
					deps, _ = kv.Value.(*ast.CompositeLit)
				}
			}
		}
		if deps == nil {
			r.fail("anchor", "chaincfg."+net+".Deployments", p.pos(pos), "table not found")
			continue
		}
		got := map[string]map[string]string{}
		bits := map[string]string{}
		for _, el := range deps.Elts {
			kv, ok := el.(*ast.KeyValueExpr)
			if !ok {
				continue
			}
			id, ok := kv.Key.(*ast.Ident)
			inner, ok2 := kv.Value.(*ast.CompositeLit)
			if !ok || !ok2 {
				continue
			}
			got[id.Name] = structLitFields(pk, inner)
			b := got[id.Name]["BitNumber"]
			if prev, dup := bits[b]; dup {
				r.fail("deployments", "chaincfg."+net+" bit "+b, p.pos(kv.Pos()), "version bit used by both "+prev+" and "+id.Name)
			}
			bits[b] = id.Name
		}
		var dn []string
		for d := range want[net] {
			dn = append(dn, d)
		}
		sort.Strings(dn)
		for _, d := range dn {
			var fn []string
			for f := range want[net][d] {
				fn = append(fn, f)
			}
			sort.Strings(fn)
			for _, f := range fn {
				cons := "chaincfg." + net + ".Deployments[" + d + "]." + f
				g := got[d][f]
				if g == want[net][d][f] {
					r.pass("deployments", cons, p.pos(pos), g)
				} else {
					r.fail("deployments", cons, p.pos(pos), fmt.Sprintf("is %q, Bitcoin Core chainparams value %q", g, want[net][d][f]))
				}
			}
		}
	}
	r.need("deployments", 18)
}

// ruleBIP9Edges: the set of (state -> next state) transitions that thresholdStateTransition can
// produce equals BIP9 (+ the speedy-trial Failed edge): extracted from its accepting exits.
func ruleBIP9Edges(p *Program, r *Report) {
	fn := p.Func(btcd + "/blockchain.thresholdStateTransition")
	if fn == nil {
		r.fail("anchor", "blockchain.thresholdStateTransition", "", "function not found")
		return
	}
	f := p.facts(fn, rejErr)
	got := map[string]bool{}
	param := ""
	for _, prm := range fn.Params {
		if strings.HasSuffix(prm.Type().String(), "ThresholdState") {
			param = "‹" + prm.Name() + "›"
		}
	}
	for _, a := range f.AcceptsRaw() {
		from := "?"
		for _, at := range a.Atoms {
			if strings.HasPrefix(at, param+" == ") {
				from = strings.TrimPrefix(at, param+" == ")
			}
		}
		to := a.Code
		if i := strings.Index(to, "<- ("); i >= 0 {
			to = strings.TrimSuffix(to[i+4:], ")")
		}
		if to == param {
			to = from // "return state": stays
		}
		got[from+"->"+to] = true
	}
	want := []string{
		"ThresholdDefined->ThresholdDefined", "ThresholdDefined->ThresholdStarted", "ThresholdDefined->ThresholdFailed",
		"ThresholdStarted->ThresholdStarted", "ThresholdStarted->ThresholdLockedIn", "ThresholdStarted->ThresholdFailed",
		"ThresholdLockedIn->ThresholdLockedIn", "ThresholdLockedIn->ThresholdActive",
	}
	ws := map[string]bool{}
	for _, w := range want {
		ws[w] = true
		if got[w] {
			r.pass("bip9-edge", w, p.pos(fn.Pos()), "transition present")
		} else {
			r.fail("bip9-edge", w, p.pos(fn.Pos()), "BIP9 transition cannot be produced by thresholdStateTransition")
		}
	}
	var extra []string
	for g := range got {
		if !ws[g] {
			extra = append(extra, g)
		}
	}
	sort.Strings(extra)
	for _, g := range extra {
		// terminal states returned unchanged are fine
		if g == "ThresholdActive->ThresholdActive" || g == "ThresholdFailed->ThresholdFailed" || strings.HasPrefix(g, "?->") {
			r.pass("bip9-edge", g, p.pos(fn.Pos()), "terminal state / default arm")
			continue
		}
		r.fail("bip9-edge", g, p.pos(fn.Pos()), "transition is not part of the BIP9 state machine")
	}
}
