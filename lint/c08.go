package main

import "golang.org/x/tools/go/ssa"

const wirePkg = btcd + "/wire/v2"

func init() {
	register(&propDef{
		id: "C08",
		explanation: "Wire codec. (1) Conformance tables: every function of package wire (and btcutil's block/tx wrappers) has exactly the reviewed rejecting guards (canonical varint, count/size bounds, frame checks), exits with returned values (size functions), and effects (each read/write primitive with operand and protocol-version/encoding condition). " +
			"(2) Bounded allocation (interval analysis, independent of the tables): every make() in wire and btcutil block/tx has a statically computed upper bound ≤ 2^26 or proportional to an existing buffer, where bounds flow through guards, parameters (max over all call sites), struct fields (max over all stores) and results. " +
			"(3) Registry: every Message implementation's command has a case in makeEmptyMessage producing that type. " +
			"Not decided: byte-for-byte equality with the protocol for every value; decode→encode identity.",
		run: func(p *Program, r *Report) {
			checkGuardsFile(p, r, "C08.guards")
			r.need("guard", 330)
			wire := inFiles(p, wirePkg)
			bu := inFiles(p, btcd+"/btcutil/v2", "block.go", "tx.go")
			ruleAllocBounds(p, r, func(fn *ssa.Function) bool { return wire(fn) || bu(fn) }, "wire+btcutil")
			r.need("alloc-bound", 30)
			// a count converted from uint64 to a signed integer must be known to fit or be tested
			// against a lower bound before it sizes an allocation or a slice (negative len panics)
			ruleSignedConv(p, r, func(fn *ssa.Function) bool { return wire(fn) || bu(fn) })
			ruleCursorAdvance(p, r, func(fn *ssa.Function) bool { return wire(fn) || bu(fn) })
			ruleMessageRegistry(p, r)
			ruleVersionGates(p, r, wirePkg)
			ruleCodecPairs(p, r, wirePkg, [][2]string{{"BtcEncode", "BtcDecode"}, {"Serialize", "Deserialize"}, {"btcEncode", "btcDecode"}})
			r.need("version-gate", 5)
		},
	})
}
