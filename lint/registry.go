package main

import (
	"go/ast"
	"go/constant"
	"go/types"
	"sort"
)

// ruleMessageRegistry (E5): every concrete type of package wire implementing
// wire.Message whose Command() returns the constant c must have `case c:` in
// makeEmptyMessage that builds that type.
func ruleMessageRegistry(p *Program, r *Report) {
	pk := p.Pkg(wirePkg)
	if pk == nil {
		r.fail("anchor", "wire", "", "package not loaded")
		return
	}
	msgIface, _ := pk.Types.Scope().Lookup("Message").Type().Underlying().(*types.Interface)
	if msgIface == nil {
		r.fail("anchor", "wire.Message", "", "interface not found")
		return
	}
	// command constant of each implementer: evaluate the single return of Command()
	cmdOf := map[string]string{} // type name -> command
	for _, name := range pk.Types.Scope().Names() {
		tn, ok := pk.Types.Scope().Lookup(name).(*types.TypeName)
		if !ok {
			continue
		}
		pt := types.NewPointer(tn.Type())
		if !types.Implements(pt, msgIface) {
			continue
		}
		if _, isIface := tn.Type().Underlying().(*types.Interface); isIface {
			continue
		}
		fn := p.Func(wirePkg + ".(*" + name + ").Command")
		if fn == nil {
			r.fail("registry", "wire."+name, "", "implements Message but Command() cannot be resolved")
			continue
		}
		cmd := ""
		if d, ok := fn.Syntax().(*ast.FuncDecl); ok && d.Body != nil {
			ast.Inspect(d.Body, func(n ast.Node) bool {
				if ret, ok := n.(*ast.ReturnStmt); ok && len(ret.Results) == 1 {
					if tv, ok := pk.TypesInfo.Types[ret.Results[0]]; ok && tv.Value != nil && tv.Value.Kind() == constant.String {
						cmd = constant.StringVal(tv.Value)
					}
				}
				return true
			})
		}
		if cmd == "" {
			r.fail("registry", "wire."+name, p.pos(fn.Pos()), "Command() does not return a constant string")
			continue
		}
		cmdOf[name] = cmd
	}
	// cases of makeEmptyMessage: command constant -> constructed type
	mk := p.Func(wirePkg + ".makeEmptyMessage")
	if mk == nil {
		r.fail("anchor", "wire.makeEmptyMessage", "", "function not found")
		return
	}
	cases := map[string]string{}
	if d, ok := mk.Syntax().(*ast.FuncDecl); ok {
		ast.Inspect(d.Body, func(n ast.Node) bool {
			cc, ok := n.(*ast.CaseClause)
			if !ok {
				return true
			}
			built := ""
			for _, st := range cc.Body {
				ast.Inspect(st, func(m ast.Node) bool {
					if cl, ok := m.(*ast.CompositeLit); ok {
						if t := pk.TypesInfo.TypeOf(cl); t != nil {
							if nt, ok := t.(*types.Named); ok {
								built = nt.Obj().Name()
							}
						}
					}
					return true
				})
			}
			for _, e := range cc.List {
				if tv, ok := pk.TypesInfo.Types[e]; ok && tv.Value != nil && tv.Value.Kind() == constant.String {
					cases[constant.StringVal(tv.Value)] = built
				}
			}
			return true
		})
	}
	var names []string
	for n := range cmdOf {
		names = append(names, n)
	}
	sort.Strings(names)
	for _, n := range names {
		cmd := cmdOf[n]
		cons := "wire." + n + " command=" + cmd
		switch built, ok := cases[cmd]; {
		case !ok:
			r.fail("registry", cons, p.pos(mk.Pos()), "message type has no case in makeEmptyMessage: a frame with this command cannot be read back")
		case built != n:
			r.fail("registry", cons, p.pos(mk.Pos()), "case builds "+built+" instead")
		default:
			r.pass("registry", cons, p.pos(mk.Pos()), "")
		}
	}
	r.need("registry", 25)
}
