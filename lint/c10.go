package main

const mempoolPkg = btcd + "/mempool"

func init() {
	register(&propDef{
		id: "C10",
		explanation: "Decides on the SSA form: (1) the acceptance pipeline (checkMempoolAcceptance and its validate* helpers, replacement rules of BIP125, " +
			"standardness/dust/fee policy rows, orphan limits) has exactly the reviewed rejecting guards and accepting exits and their relative order; " +
			"(2) the pool and its spend index (pool/outpoints, orphans/orphansByPrev) are written only by add/remove(Transaction|Orphan) with exactly the reviewed " +
			"operands under the reviewed conditions (co-update of both maps, stored fee rate formula); (3) every access of the pool's fields is made with mp.mtx held " +
			"in the required mode on every call path from an exported entry point (inter-procedural must-lock analysis), lastUpdated is atomic-only. " +
			"Not decided: the pool invariants as a function of histories and linearizability of concurrent callers.",
		run: func(p *Program, r *Report) {
			checkGuardsFile(p, r, "C10.guards")
			checkGuardsFile(p, r, "C10.order")
			r.need("guard", 100)
			r.need("effect", 30)
			r.need("order", 10)

			own := func(fns ...string) map[string]string {
				m := map[string]string{}
				for _, f := range fns {
					m["(*mempool.TxPool)."+f] = "owner of the index"
				}
				return m
			}
			ctor := "mempool.New"
			w := own("addTransaction", "removeTransaction")
			w[ctor] = "constructor, before publication"
			ruleWriters(p, r, mempoolPkg+".TxPool.pool", w)
			w = own("addTransaction", "removeTransaction")
			w[ctor] = "constructor, before publication"
			ruleWriters(p, r, mempoolPkg+".TxPool.outpoints", w)
			w = own("addOrphan", "removeOrphan")
			w[ctor] = "constructor, before publication"
			ruleWriters(p, r, mempoolPkg+".TxPool.orphans", w)
			w = own("addOrphan", "removeOrphan")
			w[ctor] = "constructor, before publication"
			ruleWriters(p, r, mempoolPkg+".TxPool.orphansByPrev", w)
			ruleWriters(p, r, mempoolPkg+".TxPool.pennyTotal", own("validateRelayFeeMet"))
			ruleWriters(p, r, mempoolPkg+".TxPool.lastPennyUnix", own("validateRelayFeeMet"))
			r.need("writers", 12)

			ruleCallers(p, r, mempoolPkg+".(*TxPool).addTransaction", map[string]string{"(*mempool.TxPool).maybeAcceptTransaction": "only after full acceptance"})

			mu := p.fieldOf(mempoolPkg + ".TxPool.mtx")
			if mu == nil {
				r.fail("anchor", "mempool.TxPool.mtx", "", "mutex field cannot be resolved")
				return
			}
			la := newLockAnalysis(p, mu, []string{mempoolPkg}, nil)
			exc := map[string]string{"mempool.New": "constructor: the pool is not yet shared"}
			for _, f := range []string{"pool", "outpoints", "orphans", "orphansByPrev", "nextExpireScan", "pennyTotal", "lastPennyUnix"} {
				ruleGuarded(p, r, la, "TxPool.mtx", mempoolPkg+".TxPool."+f, exc)
			}
			r.need("guarded", 30)
			ruleAtomicOnly(p, r, mempoolPkg+".TxPool.lastUpdated", nil)
		},
	})
}
