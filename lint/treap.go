package main

import (
	"fmt"
	"go/token"

	"golang.org/x/tools/go/ssa"
)

// E7 — freshness for the persistent treap. In the Immutable treap every store to a
// field of a treapNode must target a node created in this call (cloneTreapNode /
// newTreapNode), or a node taken from the parent stack all of whose pushed values
// are fresh. Anything else writes into a node that an open snapshot may share.
func ruleTreapFreshness(p *Program, r *Report) {
	const tr = btcd + "/database/internal/treap"
	fns := []string{tr + ".(*Immutable).Put", tr + ".(*Immutable).Delete", tr + ".(*Immutable).put"}
	found := 0
	for _, name := range fns {
		fn := p.Func(name)
		if fn == nil {
			continue
		}
		found++
		fresh := map[ssa.Value]int{} // 1 fresh, 2 not, 3 in progress
		var isFresh func(v ssa.Value) bool
		// are all values pushed on the parentStack in this function fresh?
		pushesFresh := func(stack ssa.Value) (bool, token.Pos) {
			for _, b := range fn.Blocks {
				for _, in := range b.Instrs {
					c, ok := in.(*ssa.Call)
					if !ok {
						continue
					}
					if f := c.Common().StaticCallee(); f != nil && f.Name() == "Push" && f.Pkg != nil && f.Pkg.Pkg.Path() == tr {
						if c.Common().Args[0] != stack {
							continue // a different stack object
						}
						if !isFresh(c.Common().Args[1]) {
							return false, c.Pos()
						}
					}
				}
			}
			return true, token.NoPos
		}
		isFresh = func(v ssa.Value) bool {
			switch fresh[v] {
			case 1, 3:
				return true
			case 2:
				return false
			}
			fresh[v] = 3
			ok := false
			switch x := v.(type) {
			case *ssa.Call:
				if f := x.Common().StaticCallee(); f != nil && f.Pkg != nil && f.Pkg.Pkg.Path() == tr {
					switch f.Name() {
					case "cloneTreapNode", "newTreapNode":
						ok = true
					case "At", "Pop":
						ok, _ = pushesFresh(x.Common().Args[0])
					}
				}
			case *ssa.Phi:
				ok = true
				for _, e := range x.Edges {
					if k, isC := e.(*ssa.Const); isC && k.Value == nil {
						continue
					}
					if !isFresh(e) {
						ok = false
					}
				}
			case *ssa.Alloc:
				ok = true
			}
			if ok {
				fresh[v] = 1
			} else {
				fresh[v] = 2
			}
			return ok
		}
		n := 0
		for _, b := range fn.Blocks {
			for _, in := range b.Instrs {
				st, ok := in.(*ssa.Store)
				if !ok {
					continue
				}
				fa, ok := st.Addr.(*ssa.FieldAddr)
				if !ok {
					continue
				}
				owner := fa.X.Type().String()
				if owner != "*"+tr+".treapNode" {
					continue
				}
				n++
				c := newCanon(p, fn)
				cons := fmt.Sprintf("%s :: store %s.%s #%d", short(name), c.term(fa.X), fieldName(fa.X.Type(), fa.Field), n)
				if isFresh(fa.X) {
					r.pass("treap-fresh", cons, p.pos(st.Pos()), "target node was created in this call")
				} else {
					r.fail("treap-fresh", cons, p.pos(st.Pos()), "store into a treap node that was not cloned/created in this call: an open snapshot may share it")
				}
			}
		}
	}
	if found == 0 {
		r.fail("anchor", "treap.Immutable.Put/Delete", "", "functions not found")
	}
	r.need("treap-fresh", 6)
	// Immutable's own fields are set only by its constructor
	ruleWriters(p, r, tr+".Immutable.root", map[string]string{"database/internal/treap.newImmutable": "constructor"})
	ruleWriters(p, r, tr+".Immutable.count", map[string]string{"database/internal/treap.newImmutable": "constructor"})
}
