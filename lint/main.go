package main

import (
	"fmt"
	"os"
	"time"
)

func main() {
	if len(os.Args) < 2 {
		fmt.Fprintln(os.Stderr, "usage: btcdlint probe|discover|check ...")
		os.Exit(2)
	}
	switch os.Args[1] {
	case "probe":
		t0 := time.Now()
		p, err := loadProgram(LoadOpts{})
		if err != nil {
			fmt.Println("ERR", err)
			os.Exit(1)
		}
		fmt.Printf("roots=%d all=%d funcs=%d v2roots=%d in %.1fs\n", len(p.Pkgs), len(p.All), p.NFuncs, len(p.V2.Pkgs), time.Since(t0).Seconds())
		for _, n := range os.Args[2:] {
			fmt.Println(n, p.Func(n))
		}
	}
}
