package main

import (
	"fmt"
	"go/constant"
	"math/big"
	"go/token"
	"go/types"
	"sort"
	"strings"

	"golang.org/x/tools/go/ssa"
)

// ---- return classification -------------------------------------------------

type retKind int

const (
	retAccept  retKind = iota // success value (nil error / true / non-nil)
	retFail                   // certainly a failure value
	retForward                // forwards a callee's result unchecked
	retMaybe                  // cannot tell: counted as accepting (conservative)
)

type rejectMode int

const (
	rejErr   rejectMode = iota // last result of type error, non-nil = failure
	rejFalse                   // (last) bool result false = failure
	rejTrue                    // (last) bool result true  = failure ("isDisabled" style)
	rejNil                     // first result nil = failure
	rejNone                    // no notion of failure: only propagation/ordering rules apply
)

func (m rejectMode) String() string {
	return [...]string{"err", "false", "true", "nil", "none"}[m]
}

func parseRejectMode(s string) (rejectMode, bool) {
	for i, n := range []string{"err", "false", "true", "nil", "none"} {
		if s == n {
			return rejectMode(i), true
		}
	}
	return 0, false
}

func defaultRejectMode(fn *ssa.Function) rejectMode {
	res := fn.Signature.Results()
	if res.Len() == 0 {
		return rejNone
	}
	last := res.At(res.Len() - 1).Type()
	if isErrorType(last) {
		return rejErr
	}
	if b, ok := last.Underlying().(*types.Basic); ok && b.Kind() == types.Bool {
		return rejFalse
	}
	if _, ok := res.At(0).Type().Underlying().(*types.Pointer); ok {
		return rejNil
	}
	return rejNone
}

func isErrorType(t types.Type) bool {
	return types.Identical(t, types.Universe.Lookup("error").Type())
}

// FuncFacts caches per-function analysis shared by engines.
type FuncFacts struct {
	p     *Program
	fn    *ssa.Function
	c     *Canon
	mode  rejectMode
	idom  map[*ssa.BasicBlock]*ssa.BasicBlock
	loops map[*ssa.BasicBlock]map[*ssa.BasicBlock]bool // header -> body set
	rets  []*retInfo
	retOf map[*ssa.BasicBlock]*retInfo

	events []*Event

	guardsCache []*Guard
	guardsDone  bool
}

type retInfo struct {
	ins   *ssa.Return
	blk   *ssa.BasicBlock
	kind  retKind
	code  string
	val   ssa.Value // forward / maybe: the returned value, rendered on demand (retCode)
	panic bool
}

func (p *Program) facts(fn *ssa.Function, mode rejectMode) *FuncFacts {
	f := &FuncFacts{p: p, fn: fn, c: newCanon(p, fn), mode: mode, retOf: map[*ssa.BasicBlock]*retInfo{}}
	f.c.owner = f
	f.findLoops()
	for _, b := range fn.Blocks {
		if len(b.Instrs) == 0 || b == fn.Recover {
			continue
		}
		switch t := b.Instrs[len(b.Instrs)-1].(type) {
		case *ssa.Return:
			ri := &retInfo{ins: t, blk: b}
			ri.kind, ri.code, ri.val = f.classify(t)
			f.rets = append(f.rets, ri)
			f.retOf[b] = ri
		case *ssa.Panic:
			ri := &retInfo{blk: b, kind: retFail, code: "panic", panic: true}
			f.rets = append(f.rets, ri)
			f.retOf[b] = ri
		}
	}
	return f
}

func dominates(a, b *ssa.BasicBlock) bool { return a.Dominates(b) }

func (f *FuncFacts) findLoops() {
	f.loops = map[*ssa.BasicBlock]map[*ssa.BasicBlock]bool{}
	for _, b := range f.fn.Blocks {
		for _, s := range b.Succs {
			if dominates(s, b) { // back edge b -> s
				body := f.loops[s]
				if body == nil {
					body = map[*ssa.BasicBlock]bool{s: true}
					f.loops[s] = body
				}
				// natural loop: all blocks that reach b without passing s
				var stack []*ssa.BasicBlock
				if !body[b] {
					body[b] = true
					stack = append(stack, b)
				}
				for len(stack) > 0 {
					x := stack[len(stack)-1]
					stack = stack[:len(stack)-1]
					for _, pr := range x.Preds {
						if !body[pr] {
							body[pr] = true
							stack = append(stack, pr)
						}
					}
				}
			}
		}
	}
}

// innermost loop header containing b (nil if none)
func (f *FuncFacts) loopOf(b *ssa.BasicBlock) *ssa.BasicBlock {
	var best *ssa.BasicBlock
	for h, body := range f.loops {
		if body[b] {
			if best == nil || len(body) < len(f.loops[best]) {
				best = h
			}
		}
	}
	return best
}

func (f *FuncFacts) outermostLoopOf(b *ssa.BasicBlock) *ssa.BasicBlock {
	var best *ssa.BasicBlock
	for h, body := range f.loops {
		if body[b] {
			if best == nil || len(body) > len(f.loops[best]) {
				best = h
			}
		}
	}
	return best
}

// ---- error value reasoning ------------------------------------------------

var nonNilCtorCache = map[*ssa.Function]int{} // 0 unknown, 1 yes, 2 no, 3 in progress

// alwaysNonNilError reports whether fn's (single/last) error result is never nil.
func alwaysNonNilError(p *Program, fn *ssa.Function) bool {
	switch nonNilCtorCache[fn] {
	case 1:
		return true
	case 2, 3:
		return false
	}
	nonNilCtorCache[fn] = 3
	ok := func() bool {
		switch fn.String() {
		case "fmt.Errorf", "errors.New":
			return true
		}
		if fn.Blocks == nil {
			return false
		}
		res := fn.Signature.Results()
		if res.Len() == 0 {
			return false
		}
		n := 0
		for _, b := range fn.Blocks {
			r, ok := b.Instrs[len(b.Instrs)-1].(*ssa.Return)
			if !ok {
				continue
			}
			n++
			v := r.Results[len(r.Results)-1]
			if !valueNonNil(p, v, nil) {
				return false
			}
		}
		return n > 0
	}()
	if ok {
		nonNilCtorCache[fn] = 1
	} else {
		nonNilCtorCache[fn] = 2
	}
	return ok
}

// valueNonNil: is interface/pointer value v certainly non-nil (at block at, if given)?
func valueNonNil(p *Program, v ssa.Value, at *ssa.BasicBlock) bool {
	seen := map[ssa.Value]bool{}
	var rec func(v ssa.Value) bool
	rec = func(v ssa.Value) bool {
		if seen[v] {
			return true
		}
		seen[v] = true
		switch x := v.(type) {
		case *ssa.Const:
			return x.Value != nil
		case *ssa.MakeInterface:
			// a typed value in an interface is a non-nil interface
			return true
		case *ssa.ChangeInterface:
			return rec(x.X)
		case *ssa.ChangeType:
			return rec(x.X)
		case *ssa.Alloc, *ssa.MakeClosure, *ssa.MakeMap, *ssa.MakeSlice, *ssa.MakeChan, *ssa.Function:
			return true
		case *ssa.Call:
			if f := x.Common().StaticCallee(); f != nil && alwaysNonNilError(p, f) {
				return true
			}
		case *ssa.UnOp:
			if x.Op == token.MUL {
				if g, ok := x.X.(*ssa.Global); ok && isErrorType(g.Type().(*types.Pointer).Elem()) {
					// package-level error variables (ErrFoo = errors.New(..)) are never nil
					return true
				}
			}
		case *ssa.Phi:
			for _, e := range x.Edges {
				if !rec(e) {
					return false
				}
			}
			return true
		}
		if at != nil && nilCheckedAt(v, at) {
			return true
		}
		return false
	}
	return rec(v)
}

// nilCheckedAt: block at is dominated by the non-nil edge of a test `v != nil`.
func nilCheckedAt(v ssa.Value, at *ssa.BasicBlock) bool {
	for _, ref := range *v.Referrers() {
		b, ok := ref.(*ssa.BinOp)
		if !ok || (b.Op != token.NEQ && b.Op != token.EQL) {
			continue
		}
		other := b.Y
		if other == v {
			other = b.X
		}
		if k, ok := other.(*ssa.Const); !ok || k.Value != nil {
			continue
		}
		for _, r2 := range *b.Referrers() {
			iff, ok := r2.(*ssa.If)
			if !ok {
				continue
			}
			idx := 0
			if b.Op == token.EQL {
				idx = 1
			}
			s := iff.Block().Succs[idx]
			if edgeDominates(iff.Block(), idx, at) {
				_ = s
				return true
			}
		}
	}
	// errors.Is(v, target) / errors.As(v, &t) true edge: v is non-nil there
	for _, ref := range *v.Referrers() {
		call, ok := ref.(*ssa.Call)
		if !ok {
			continue
		}
		f := call.Common().StaticCallee()
		if f == nil || (f.String() != "errors.Is" && f.String() != "errors.As") || len(call.Common().Args) == 0 || call.Common().Args[0] != v {
			continue
		}
		for _, r2 := range *call.Referrers() {
			if iff, ok := r2.(*ssa.If); ok && edgeDominates(iff.Block(), 0, at) {
				return true
			}
		}
	}
	return false
}

// edgeDominates: taking edge (d -> d.Succs[k]) is necessary to reach b.
func edgeDominates(d *ssa.BasicBlock, k int, b *ssa.BasicBlock) bool {
	s := d.Succs[k]
	if d.Succs[0] == d.Succs[1] {
		return false
	}
	if !s.Dominates(b) {
		return false
	}
	for _, pr := range s.Preds {
		if pr == d {
			continue
		}
		if !s.Dominates(pr) {
			return false
		}
	}
	// the edge must be the only way from d into s
	return true
}

func (f *FuncFacts) errCode(v ssa.Value) string {
	v0 := v
	tname := ""
	for {
		switch x := v.(type) {
		case *ssa.MakeInterface:
			if n, ok := x.X.Type().(*types.Named); ok {
				tname = short(n.String())
			}
			v = x.X
			continue
		case *ssa.ChangeInterface:
			v = x.X
			continue
		case *ssa.ChangeType:
			v = x.X
			continue
		}
		break
	}
	if _, isCall := v.(*ssa.Call); !isCall && tname != "" {
		if ld, ok := v.(*ssa.UnOp); ok && ld.Op == token.MUL {
			if a, ok := ld.X.(*ssa.Alloc); ok {
				return f.allocLitCode(a)
			}
		}
		return tname
	}
	switch x := v.(type) {
	case *ssa.Call:
		name := f.c.calleeName(x.Common())
		args := x.Common().Args
		// code = first constant argument of a named (enumeration) type
		for _, a := range args {
			if k, ok := a.(*ssa.Const); ok {
				if _, named := k.Type().(*types.Named); named && k.Value != nil && k.Value.Kind() == constant.Int {
					return name + ":" + f.c.constStr(k)
				}
			}
		}
		return name
	case *ssa.Extract:
		if call, ok := x.Tuple.(*ssa.Call); ok {
			return f.c.calleeName(call.Common())
		}
	case *ssa.UnOp:
		if x.Op == token.MUL {
			if g, ok := x.X.(*ssa.Global); ok {
				return short(g.Pkg.Pkg.Path()) + "." + g.Name()
			}
			// struct literal built in an Alloc then loaded: type + stored enum constants
			if a, ok := x.X.(*ssa.Alloc); ok {
				return f.allocLitCode(a)
			}
		}
	case *ssa.Phi:
		set := map[string]bool{}
		for _, e := range x.Edges {
			set[f.errCode(e)] = true
		}
		var xs []string
		for s := range set {
			xs = append(xs, s)
		}
		sort.Strings(xs)
		return "φ(" + strings.Join(xs, "|") + ")"
	case *ssa.Const:
		return f.c.constStr(x)
	case *ssa.Alloc:
		return f.allocLitCode(x)
	}
	_ = v0
	return short(v.Type().String())
}

func (f *FuncFacts) allocLitCode(a *ssa.Alloc) string {
	name := short(a.Type().(*types.Pointer).Elem().String())
	var codes []string
	for _, ref := range *a.Referrers() {
		fa, ok := ref.(*ssa.FieldAddr)
		if !ok {
			continue
		}
		for _, r2 := range *fa.Referrers() {
			if st, ok := r2.(*ssa.Store); ok && st.Addr == fa {
				if k, ok := st.Val.(*ssa.Const); ok {
					if _, named := k.Type().(*types.Named); named && k.Value != nil && k.Value.Kind() == constant.Int {
						codes = append(codes, f.c.constStr(k))
					}
				}
			}
		}
	}
	sort.Strings(codes)
	if len(codes) > 0 {
		return name + ":" + strings.Join(codes, ",")
	}
	return name
}

// unspill undoes go/ssa's spilling of results in functions with defer:
//   *r0 = v ; rundefers ; t = *r0 ; return t
func unspill(v ssa.Value, blk *ssa.BasicBlock) ssa.Value {
	ld, ok := v.(*ssa.UnOp)
	if !ok || ld.Op != token.MUL {
		return v
	}
	a, ok := ld.X.(*ssa.Alloc)
	if !ok {
		return v
	}
	var last ssa.Value
	for _, in := range blk.Instrs {
		if in == ssa.Instruction(ld) {
			break
		}
		if st, ok := in.(*ssa.Store); ok && st.Addr == a {
			last = st.Val
		}
	}
	if last != nil {
		return last
	}
	return v
}

func (f *FuncFacts) classify(r0 *ssa.Return) (retKind, string, ssa.Value) {
	if len(r0.Results) == 0 {
		return retAccept, "", nil
	}
	r := &ssa.Return{Results: make([]ssa.Value, len(r0.Results))}
	for i, v := range r0.Results {
		r.Results[i] = unspill(v, r0.Block())
	}
	rblk := r0.Block()
	switch f.mode {
	case rejNone:
		return retAccept, "", nil
	case rejErr:
		v := r.Results[len(r.Results)-1]
		if k, ok := v.(*ssa.Const); ok && k.Value == nil {
			return retAccept, "", nil
		}
		if valueNonNil(f.p, v, rblk) {
			return retFail, f.errCode(v), nil
		}
		// an unchecked call result returned as is
		switch x := v.(type) {
		case *ssa.Call:
			return retForward, "", x
		case *ssa.Extract:
			if call, ok := x.Tuple.(*ssa.Call); ok {
				return retForward, "", call
			}
		}
		return retMaybe, "", v
	case rejFalse, rejTrue:
		v := r.Results[len(r.Results)-1]
		if k, ok := v.(*ssa.Const); ok && k.Value != nil && k.Value.Kind() == constant.Bool {
			bv := constant.BoolVal(k.Value)
			if bv == (f.mode == rejTrue) {
				return retFail, fmt.Sprint(bv), nil
			}
			return retAccept, "", nil
		}
		switch x := v.(type) {
		case *ssa.Call:
			return retForward, "", x
		}
		return retMaybe, "", v
	case rejNil:
		v := r.Results[0]
		if k, ok := v.(*ssa.Const); ok && k.Value == nil {
			return retFail, "nil", nil
		}
		if valueNonNil(f.p, v, rblk) {
			return retAccept, "", nil
		}
		return retMaybe, "", v
	}
	return retMaybe, "", nil
}

// ---- rejecting regions -----------------------------------------------------

// reachRets returns the set of return/panic infos reachable from block s.
func (f *FuncFacts) reachRets(s *ssa.BasicBlock, removed map[*ssa.BasicBlock]bool, cutEdges map[[2]int]bool) []*retInfo {
	seen := map[*ssa.BasicBlock]bool{}
	var out []*retInfo
	var stack []*ssa.BasicBlock
	if !removed[s] {
		stack = append(stack, s)
		seen[s] = true
	}
	for len(stack) > 0 {
		b := stack[len(stack)-1]
		stack = stack[:len(stack)-1]
		if ri := f.retOf[b]; ri != nil {
			out = append(out, ri)
		}
		for i, n := range b.Succs {
			if cutEdges[[2]int{b.Index, i}] || removed[n] || seen[n] {
				continue
			}
			seen[n] = true
			stack = append(stack, n)
		}
	}
	return out
}

// rejecting: every return reachable from s is a failure, and at least one is.
func (f *FuncFacts) rejecting(s *ssa.BasicBlock) (bool, string) {
	rs := f.reachRets(s, nil, nil)
	if len(rs) == 0 {
		return false, ""
	}
	codes := map[string]bool{}
	for _, r := range rs {
		if r.kind != retFail {
			return false, ""
		}
		codes[r.code] = true
	}
	var xs []string
	for c := range codes {
		xs = append(xs, c)
	}
	sort.Strings(xs)
	return true, strings.Join(xs, "|")
}

// ---- guards ----------------------------------------------------------------

type ctxEdge struct {
	blk  *ssa.BasicBlock
	succ int
	atom string
	loop bool
}

type Guard struct {
	Fn      string
	Atoms   []string // sorted conjunction: context ∪ {atom}
	Code    string
	Pos     token.Pos
	blk     *ssa.BasicBlock
	rejSucc int
	ctx     []ctxEdge
	Avoid   string // non-empty: how the guard can be avoided (violation of unavoidability)
	merged  bool   // an exit that stands for several returns with the same result
	noAfter bool   // composed from a helper's guard that is not passed on every way through the helper
}

func (g *Guard) Key() string {
	return strings.Join(g.Atoms, " && ") + " => " + g.Code
}

func (f *FuncFacts) ifOf(b *ssa.BasicBlock) *ssa.If {
	if len(b.Instrs) == 0 {
		return nil
	}
	iff, _ := b.Instrs[len(b.Instrs)-1].(*ssa.If)
	return iff
}

func (f *FuncFacts) loopCondAtom(b *ssa.BasicBlock, iff *ssa.If, succ int) (string, bool) {
	if rl := f.c.rotByPre(b); rl != nil && succ == 0 {
		return f.c.eachAtom(rl.bound), true
	}
	body := false
	for h, set := range f.loops {
		if (h == b || set[b]) && set[b.Succs[succ]] && !set[b.Succs[1-succ]] {
			body = true
		}
	}
	if !body {
		return "", false
	}
	// range loops: name what is ranged over
	switch cond := iff.Cond.(type) {
	case *ssa.BinOp:
		if start, ok := countdownStart(cond); ok && succ == 0 {
			return "each(#" + f.c.term(stripConv(start)) + ")", true
		}
		if k0, ok := inductionStart(stripConv(cond.X)); ok && k0.Sign() > 0 && succ == 0 && (cond.Op == token.LEQ || cond.Op == token.LSS) {
			// for i := k; i <= B; i++ runs B-k+1 times; for i := k; i < B; i++ runs B-k times
			off := new(big.Int).Neg(k0)
			if cond.Op == token.LEQ {
				off.Add(off, big.NewInt(1))
			}
			if kb, ok := intConst(cond.Y); ok {
				return "each(#" + new(big.Int).Add(kb, off).String() + ")", true
			}
			if off.Sign() == 0 {
				return f.c.eachAtom(cond.Y), true
			}
		}
		if cond.Op == token.LEQ && succ == 0 && isInductionVar(stripConv(cond.X)) {
			if k, ok := intConst(cond.Y); ok {
				return "each(#" + new(big.Int).Add(k, big.NewInt(1)).String() + ")", true
			}
		}
		if cond.Op == token.LSS && succ == 0 && isInductionVar(stripConv(cond.X)) {
			// for i := 0; i < B; i++  ==  for i := range B
			y := stripConv(cond.Y)
			if call, ok := y.(*ssa.Call); ok {
				if bi, ok := call.Common().Value.(*ssa.Builtin); ok && bi.Name() == "len" {
					return "each(" + f.c.term(call.Common().Args[0]) + ")", true
				}
			}
			return "each(#" + f.c.term(y) + ")", true
		}
		if cond.Op == token.LSS {
			if call, ok := cond.Y.(*ssa.Call); ok {
				if bi, ok := call.Common().Value.(*ssa.Builtin); ok && bi.Name() == "len" && strings.HasPrefix(b.Comment, "rangeindex") {
					return "each(" + f.c.term(call.Common().Args[0]) + ")", true
				}
			}
			if strings.HasPrefix(b.Comment, "rangeindex") || strings.HasPrefix(b.Comment, "rangeint") {
				return "each(#" + f.c.term(cond.Y) + ")", true
			}
		}
	case *ssa.Extract:
		if nx, ok := cond.Tuple.(*ssa.Next); ok {
			if rg, ok := nx.Iter.(*ssa.Range); ok {
				return "each(" + f.c.term(rg.X) + ")", true
			}
		}
	}
	return "loop(" + f.c.condAtom(iff.Cond, succ == 0) + ")", true
}

// context of block b: the branch edges that must be taken to reach b, except
// the pass-through edges of other guards.
func (f *FuncFacts) context(b *ssa.BasicBlock, rejEdge map[[2]int]bool) []ctxEdge {
	var out []ctxEdge
	for _, d := range f.fn.Blocks {
		iff := f.ifOf(d)
		if iff == nil || d == b {
			continue
		}
		for k := 0; k < 2; k++ {
			if !edgeDominates(d, k, b) {
				continue
			}
			if rejEdge[[2]int{d.Index, 1 - k}] {
				continue // passing another guard
			}
			if f.isLoopExit(d, k) {
				continue // leaving an earlier loop carries no condition of interest
			}
			if la, ok := f.loopCondAtom(d, iff, k); ok {
				out = append(out, ctxEdge{d, k, la, true})
				continue
			}
			{
				ps, ok := f.condPaths(iff.Cond, k == 0, false, 0)
				if ok && len(ps) == 1 {
					for _, a := range ps[0] {
						out = append(out, ctxEdge{d, k, a, false})
					}
					continue
				}
				if ok && len(ps) > 1 && f.isInlinedCall(iff.Cond) {
					// a disjunctive predicate helper: written in place it is a short-circuit chain,
					// whose join block carries the disjunction of the alternatives (orJoin)
					if gp, ok2 := f.condPaths(iff.Cond, k == 0, true, 0); ok2 && len(gp) > 1 {
						var alts []string
						for _, p := range gp {
							if len(p) != 1 {
								alts = nil
								break
							}
							alts = append(alts, p[0])
						}
						if alts != nil {
							sort.Strings(alts)
							out = append(out, ctxEdge{d, k, "(" + strings.Join(alts, " || ") + ")", false})
						}
					}
					continue
				}
			}
			out = append(out, ctxEdge{d, k, f.c.condAtom(iff.Cond, k == 0), false})
		}
	}
	// a block entered from a short-circuit chain (`if a || b { … }`, or `if !a && !b { return }; …`)
	// is dominated by none of the chain's edges: its condition is the disjunction of their atoms
	for _, j := range f.fn.Blocks {
		if !j.Dominates(b) {
			continue
		}
		if a, d, k, ok := f.orJoin(j, rejEdge); ok {
			out = append(out, ctxEdge{d, k, a, false})
		}
	}
	return out
}

// orJoin: j's predecessors are exactly the blocks c0 → c1 → … → cn of a short-circuit chain, each
// ending in an If with one edge into j and the other to the next link (which has no other
// predecessor). Returns the disjunction of the edge conditions (disjuncts sorted) with the last
// link's edge as its position.
func (f *FuncFacts) orJoin(j *ssa.BasicBlock, rejEdge map[[2]int]bool) (string, *ssa.BasicBlock, int, bool) {
	if len(j.Preds) < 2 || len(j.Preds) > 8 {
		return "", nil, 0, false
	}
	isPred := map[*ssa.BasicBlock]bool{}
	for _, p := range j.Preds {
		if isPred[p] || f.ifOf(p) == nil || p.Succs[0] == p.Succs[1] || j.Dominates(p) || f.loops[p] != nil {
			return "", nil, 0, false
		}
		isPred[p] = true
	}
	// the root is the link whose own predecessors are outside the chain
	var root *ssa.BasicBlock
	for _, p := range j.Preds {
		if len(p.Preds) == 1 && isPred[p.Preds[0]] {
			continue
		}
		if root != nil {
			return "", nil, 0, false
		}
		root = p
	}
	if root == nil {
		return "", nil, 0, false
	}
	var atoms []string
	cur, last, lastK := root, root, 0
	for n := 0; n < len(j.Preds); n++ {
		k := 0
		if cur.Succs[1] == j {
			k = 1
		}
		if cur.Succs[k] != j || rejEdge[[2]int{cur.Index, 1 - k}] || rejEdge[[2]int{cur.Index, k}] {
			return "", nil, 0, false
		}
		if _, isLoop := f.loopCondAtom(cur, f.ifOf(cur), k); isLoop || f.isLoopExit(cur, k) {
			return "", nil, 0, false
		}
		atoms = append(atoms, f.c.condAtom(f.ifOf(cur).Cond, k == 0))
		last, lastK = cur, k
		nx := cur.Succs[1-k]
		if n == len(j.Preds)-1 {
			if isPred[nx] {
				return "", nil, 0, false
			}
			break
		}
		if !isPred[nx] || len(nx.Preds) != 1 {
			return "", nil, 0, false
		}
		cur = nx
	}
	sort.Strings(atoms)
	return "(" + strings.Join(atoms, " || ") + ")", last, lastK, true
}

func (f *FuncFacts) isLoopExit(d *ssa.BasicBlock, k int) bool {
	if k == 1 && (f.c.rotByPre(d) != nil || f.c.rotByLatch(d) != nil) {
		return true
	}
	for _, rl := range f.c.rotLoops() {
		if rl.body == d {
			return false // the header of a rotated loop is its body: a branch there is a break, not the loop test
		}
	}
	// only the loop's own test: leaving through it says no more than "the loop is over". An exit
	// from inside the body (conditional return or break) is a decision and keeps its condition.
	for h, set := range f.loops {
		if h == d && !set[d.Succs[k]] && set[d.Succs[1-k]] {
			return true
		}
	}
	return false
}

func simplifyAtoms(atoms []string) []string {
	// x == c makes every x != c' redundant
	// (only for a term compared with constants: `nil == f(x)` says nothing about `nil != g(y)`)
	constLike := func(s string) bool {
		return s != "" && !strings.ContainsAny(s, "(‹[*&") && !strings.Contains(s, " ")
	}
	eq := map[string]bool{}
	for _, a := range atoms {
		if i := strings.Index(a, " == "); i > 0 && !constLike(a[:i]) && constLike(a[i+4:]) {
			eq[a[:i]] = true
		}
	}
	set := map[string]bool{}
	var out []string
	for _, a := range atoms {
		if i := strings.Index(a, " != "); i > 0 && eq[a[:i]] && constLike(a[i+4:]) {
			continue
		}
		if a == "true" {
			continue
		}
		if !set[a] {
			set[a] = true
			out = append(out, a)
		}
	}
	sort.Strings(out)
	return out
}

// Accepts lists the non-failing returns with the branch conditions that lead
// to them: "accept when ..." / "forward →callee when ...".
func (f *FuncFacts) Accepts() []*Guard {
	out := mergeExits(f.AcceptsRaw())
	// a predicate: when it fails is exactly what the rejecting guards say; several successful
	// returns of the constant result are "everything else", however the cases were grouped
	if f.mode == rejFalse || f.mode == rejTrue {
		want := "accept <- (" + fmt.Sprint(f.mode == rejFalse) + ")"
		for _, g := range out {
			if g.merged && g.Code == want {
				g.Atoms = []string{"always"}
			}
		}
	}
	return out
}

// AcceptsRaw: one exit per return (the hand-written protocol rows and the BIP9 edge extraction
// read the individual returns; the conformance tables compare the merged exits).
func (f *FuncFacts) AcceptsRaw() []*Guard {
	rejEdge, _ := f.rejEdges()
	var out []*Guard
	plainAccept := false
	for _, ri := range f.rets {
		if ri.kind == retFail {
			continue
		}
		if ex := f.phiExits(ri, rejEdge); ex != nil {
			out = append(out, ex...)
			continue
		}
		ctx := f.context(ri.blk, rejEdge)
		var atoms []string
		for _, c := range ctx {
			atoms = append(atoms, c.atom)
		}
		atoms = simplifyAtoms(atoms)
		if len(atoms) == 0 {
			atoms = []string{"always"}
		}
		kind := "accept"
		if ri.ins != nil && len(ri.ins.Results) > 0 {
			var vals []string
			_, decided := f.boolReturn(ri)
			for i, v := range ri.ins.Results {
				if f.mode == rejErr && i == len(ri.ins.Results)-1 {
					continue
				}
				if decided && i == len(ri.ins.Results)-1 {
					vals = append(vals, fmt.Sprint(f.mode != rejTrue)) // what is left after the failing alternatives
					continue
				}
				vals = append(vals, f.c.term(unspill(v, ri.blk)))
			}
			if len(vals) > 0 {
				kind = "accept <- (" + strings.Join(vals, ", ") + ")"
			}
			if decided {
				ri = &retInfo{ins: ri.ins, blk: ri.blk, kind: retAccept}
			}
			// `return cond, nil` is `if cond { return true, nil }; return false, nil`: one exit per
			// truth value, under the condition when it is a single conjunction
			if !decided && ri.kind == retAccept {
				if split := f.boolExits(ri, atoms, vals); split != nil {
					out = append(out, split...)
					continue
				}
			}
		}
		switch ri.kind {
		case retForward:
			kind = "forward " + f.retCode(ri)
		case retMaybe:
			kind = "maybe " + f.retCode(ri)
		}
		if kind == "accept" {
			// a success return that carries no value: where exactly the function returns is a matter
			// of layout (guarded block vs. early return); what it did before is in the guards/effects
			if plainAccept {
				continue
			}
			plainAccept = true
			atoms = []string{"·"}
		}
		out = append(out, &Guard{Fn: funcName(f.fn), Atoms: atoms, Code: kind, Pos: f.retPos(ri), blk: ri.blk})
	}
	return out
}

// mergeExits: several returns that hand back the same thing are one exit under the disjunction of
// their conditions — `case A: return v; case B: return v` is `case A, B: return v`, and a return
// duplicated into two branches is the return after their join. What was done before each return is
// in the guards and effects; the exit records when the function succeeds with which result.
func mergeExits(in []*Guard) []*Guard {
	by := map[string][]*Guard{}
	var order []string
	for _, g := range in {
		if _, ok := by[g.Code]; !ok {
			order = append(order, g.Code)
		}
		by[g.Code] = append(by[g.Code], g)
	}
	var out []*Guard
	for _, code := range order {
		gs := by[code]
		if len(gs) < 2 || code == "accept" {
			out = append(out, gs...)
			continue
		}
		// common conjuncts
		cnt := map[string]int{}
		for _, g := range gs {
			seen := map[string]bool{}
			for _, a := range g.Atoms {
				if !seen[a] {
					seen[a] = true
					cnt[a]++
				}
			}
		}
		var common []string
		for a, n := range cnt {
			if n == len(gs) && a != "always" {
				common = append(common, a)
			}
		}
		isCommon := map[string]bool{}
		for _, a := range common {
			isCommon[a] = true
		}
		var alts [][]string
		unconditional := false
		for _, g := range gs {
			var rest []string
			for _, a := range g.Atoms {
				if a != "always" && !isCommon[a] {
					rest = append(rest, a)
				}
			}
			if len(rest) == 0 {
				unconditional = true
				break
			}
			// one short-circuit join among the conjuncts: distribute it
			expanded := false
			for i, a := range rest {
				if parts, ok := splitOrAtom(a); ok {
					for _, p := range parts {
						alt := append(append(append([]string{}, rest[:i]...), rest[i+1:]...), p)
						alts = append(alts, simplifyAtoms(alt))
					}
					expanded = true
					break
				}
			}
			if !expanded {
				alts = append(alts, rest)
			}
		}
		atoms := append([]string{}, common...)
		if !unconditional {
			if d := renderDNF(simplifyDNF(alts)); d != "true" {
				atoms = append(atoms, d)
			}
		}
		atoms = simplifyAtoms(atoms)
		if len(atoms) == 0 {
			atoms = []string{"always"}
		}
		m := *gs[0]
		m.merged = true
		m.Atoms = atoms
		out = append(out, &m)
	}
	return out
}

// splitOrAtom splits "(a || b || c)" (the rendering of a short-circuit join) into its alternatives.
func splitOrAtom(s string) ([]string, bool) {
	if len(s) < 2 || s[0] != '(' || s[len(s)-1] != ')' {
		return nil, false
	}
	body := s[1 : len(s)-1]
	depth := 0
	var parts []string
	last := 0
	for i := 0; i < len(body); i++ {
		switch body[i] {
		case '(', '[', '{':
			depth++
		case ')', ']', '}':
			depth--
			if depth < 0 {
				return nil, false // the outer parentheses do not enclose the whole atom
			}
		case ' ':
			if depth == 0 && strings.HasPrefix(body[i:], " || ") {
				parts = append(parts, body[last:i])
				last = i + 4
				i += 3
			}
		}
	}
	if depth != 0 || last == 0 {
		return nil, false
	}
	parts = append(parts, body[last:])
	for _, p := range parts {
		if strings.Contains(p, " && ") {
			return nil, false
		}
	}
	return parts, true
}

// phiExits: a return whose (single non-error) result is a phi placed in the returning block — the
// "result variable assigned in a switch, returned once" idiom — is expanded into one exit per
// incoming edge, each with the conditions of its predecessor, so the selection is not lost.
func (f *FuncFacts) phiExits(ri *retInfo, rejEdge map[[2]int]bool) []*Guard {
	if ri.ins == nil || ri.kind != retAccept {
		return nil
	}
	idx := -1
	for i, v := range ri.ins.Results {
		if f.mode == rejErr && i == len(ri.ins.Results)-1 {
			continue
		}
		if ph, ok := unspill(v, ri.blk).(*ssa.Phi); ok && ph.Block() == ri.blk {
			if idx >= 0 {
				return nil // more than one phi result: keep the plain rendering
			}
			idx = i
		}
	}
	if idx < 0 {
		return nil
	}
	type leaf struct {
		val  ssa.Value
		pred *ssa.BasicBlock
		succ *ssa.BasicBlock
	}
	var leaves []leaf
	var expand func(ph *ssa.Phi, depth int) bool
	expand = func(ph *ssa.Phi, depth int) bool {
		for i, e := range ph.Edges {
			pred := ph.Block().Preds[i]
			if ph.Block().Dominates(pred) {
				return false // loop-carried
			}
			if p2, ok := e.(*ssa.Phi); ok && depth < 3 && p2.Block() == pred {
				if !expand(p2, depth+1) {
					return false
				}
				continue
			}
			leaves = append(leaves, leaf{e, pred, ph.Block()})
			if len(leaves) > 24 {
				return false
			}
		}
		return true
	}
	ph := unspill(ri.ins.Results[idx], ri.blk).(*ssa.Phi)
	if c, _ := f.c.rotExitPhi(ph); c != nil {
		return nil
	}
	if !expand(ph, 0) || len(leaves) < 2 {
		return nil
	}
	var out []*Guard
	for _, lf := range leaves {
		ctx := f.context(lf.pred, rejEdge)
		var base []string
		for _, c := range ctx {
			base = append(base, c.atom)
		}
		alts := [][]string{nil}
		if iff := f.ifOf(lf.pred); iff != nil && lf.pred.Succs[0] != lf.pred.Succs[1] {
			for k, sc := range lf.pred.Succs {
				if sc == lf.succ && !rejEdge[[2]int{lf.pred.Index, 1 - k}] && !f.isLoopExit(lf.pred, k) {
					if ps, ok := f.condPaths(iff.Cond, k == 0, false, 0); ok && len(ps) > 0 {
						alts = ps
					} else {
						alts = [][]string{{f.c.condAtom(iff.Cond, k == 0)}}
					}
				}
			}
		}
		var vals []string
		for i, v := range ri.ins.Results {
			if f.mode == rejErr && i == len(ri.ins.Results)-1 {
				continue
			}
			if i == idx {
				vals = append(vals, f.c.term(lf.val))
			} else {
				vals = append(vals, f.c.term(unspill(v, ri.blk)))
			}
		}
		for _, alt := range alts {
			atoms := simplifyAtoms(append(append([]string{}, base...), alt...))
			if len(atoms) == 0 {
				atoms = []string{"always"}
			}
			out = append(out, &Guard{Fn: funcName(f.fn), Atoms: atoms, Code: "accept <- (" + strings.Join(vals, ", ") + ")", Pos: f.blockPos(lf.pred), blk: lf.pred})
		}
	}
	return out
}

func (f *FuncFacts) rejEdges() (map[[2]int]bool, map[[2]int]string) {
	rejEdge := map[[2]int]bool{}
	rejCode := map[[2]int]string{}
	for _, b := range f.fn.Blocks {
		if f.ifOf(b) == nil {
			continue
		}
		for k := 0; k < 2; k++ {
			if ok, code := f.rejecting(b.Succs[k]); ok {
				rejEdge[[2]int{b.Index, k}] = true
				rejCode[[2]int{b.Index, k}] = code
			}
		}
	}
	return rejEdge, rejCode
}

// Guards computes the rejection profile of the function.
func (f *FuncFacts) Guards() []*Guard {
	if f.guardsDone {
		return f.guardsCache
	}
	gs := f.computeGuards()
	f.guardsCache, f.guardsDone = gs, true
	return gs
}

func (f *FuncFacts) computeGuards() []*Guard {
	rejEdge := map[[2]int]bool{}
	rejCode := map[[2]int]string{}
	for _, b := range f.fn.Blocks {
		if f.ifOf(b) == nil {
			continue
		}
		for k := 0; k < 2; k++ {
			if ok, code := f.rejecting(b.Succs[k]); ok {
				rejEdge[[2]int{b.Index, k}] = true
				rejCode[[2]int{b.Index, k}] = code
			}
		}
	}
	var out []*Guard
	for _, b := range f.fn.Blocks {
		iff := f.ifOf(b)
		if iff == nil {
			continue
		}
		r0, r1 := rejEdge[[2]int{b.Index, 0}], rejEdge[[2]int{b.Index, 1}]
		if !r0 && !r1 {
			continue
		}
		// if both edges reject, and the block itself is inside a rejecting region
		// (dominated by a rejecting edge), it is just error-path plumbing.
		if f.inRejectingRegion(b, rejEdge) {
			continue
		}
		for k := 0; k < 2; k++ {
			if !rejEdge[[2]int{b.Index, k}] {
				continue
			}
			if k == 1 && f.c.rotByLatch(b) != nil {
				continue // exhaustion of a rotated counted loop: reported once, at its pre-test
			}
			ctx := f.context(b, rejEdge)
			atoms := []string{}
			for _, c := range ctx {
				atoms = append(atoms, c.atom)
			}
			alts := [][]string{nil}
			if rl := f.c.rotByPre(b); rl != nil && k == 1 {
				alts = [][]string{{f.c.cmp2(token.GEQ, rl.phi, rl.bound, 0)}}
			} else if ps, ok := f.condPaths(iff.Cond, k == 0, true, 0); ok && len(ps) > 0 {
				alts = ps
			} else {
				alts = [][]string{{f.c.condAtom(iff.Cond, k == 0)}}
			}
			seenAlt := map[string]bool{}
			for _, alt := range alts {
				as := simplifyAtoms(append(append([]string{}, atoms...), alt...))
				if key := strings.Join(as, " && "); seenAlt[key] {
					continue
				} else {
					seenAlt[key] = true
				}
				g := &Guard{Fn: funcName(f.fn), Atoms: as, Code: rejCode[[2]int{b.Index, k}],
					Pos: iff.Cond.Pos(), blk: b, rejSucc: k, ctx: ctx}
				if !g.Pos.IsValid() {
					g.Pos = f.blockPos(b)
				}
				g.Avoid = f.avoidable(g)
				out = append(out, g)
			}
		}
	}
	for _, ri := range f.rets {
		fail, ok := f.boolReturn(ri)
		if !ok {
			continue
		}
		ctx := f.context(ri.blk, rejEdge)
		var base []string
		for _, c := range ctx {
			base = append(base, c.atom)
		}
		seen := map[string]bool{}
		for _, p := range fail {
			as := simplifyAtoms(append(append([]string{}, base...), p...))
			if key := strings.Join(as, " && "); seen[key] {
				continue
			} else {
				seen[key] = true
			}
			g := &Guard{Fn: funcName(f.fn), Atoms: as, Code: fmt.Sprint(f.mode == rejTrue), Pos: ri.ins.Pos(), blk: ri.blk, ctx: ctx}
			if !g.Pos.IsValid() {
				g.Pos = f.blockPos(ri.blk)
			}
			g.Avoid = f.avoidable(g)
			out = append(out, g)
		}
	}
	return f.composeGuards(out)
}

func (f *FuncFacts) blockPos(b *ssa.BasicBlock) token.Pos {
	for _, in := range b.Instrs {
		if in.Pos().IsValid() {
			return in.Pos()
		}
	}
	return f.fn.Pos()
}

func (f *FuncFacts) inRejectingRegion(b *ssa.BasicBlock, rejEdge map[[2]int]bool) bool {
	for e := range rejEdge {
		d := f.fn.Blocks[e[0]]
		if d == b {
			continue
		}
		if edgeDominates(d, e[1], b) {
			return true
		}
	}
	return false
}

// avoidable implements obligation (iii): with the guard's block removed and the
// legitimate skip edges (negations of its own context) cut, no accepting return
// may be reachable; for a guard in a loop, no path through one iteration may
// avoid it.
func (f *FuncFacts) avoidable(g *Guard) string {
	cut := map[[2]int]bool{}
	for _, c := range g.ctx {
		cut[[2]int{c.blk.Index, 1 - c.succ}] = true
	}
	removed := map[*ssa.BasicBlock]bool{g.blk: true}
	lh := f.loopOf(g.blk)
	if lh == nil {
		for _, r := range f.reachRets(f.fn.Blocks[0], removed, cut) {
			if r.kind != retFail {
				return fmt.Sprintf("accepting return at %s reachable without passing the guard", f.p.pos(f.retPos(r)))
			}
		}
		return ""
	}
	// loop case: (a) iteration-level
	body := f.loops[lh]
	seen := map[*ssa.BasicBlock]bool{}
	var stack []*ssa.BasicBlock
	for i, s := range lh.Succs {
		if body[s] && !removed[s] && !cut[[2]int{lh.Index, i}] {
			if !seen[s] {
				seen[s] = true
				stack = append(stack, s)
			}
		}
	}
	if lh == g.blk {
		return ""
	}
	for len(stack) > 0 {
		b := stack[len(stack)-1]
		stack = stack[:len(stack)-1]
		for i, n := range b.Succs {
			if cut[[2]int{b.Index, i}] || removed[n] {
				continue
			}
			if n == lh {
				return fmt.Sprintf("iteration of loop at %s can complete (via %s) without passing the guard", f.p.pos(f.blockPos(lh)), f.p.pos(f.blockPos(b)))
			}
			if !body[n] {
				// leaving the loop from inside the body: must be rejecting
				if ok, _ := f.rejecting(n); !ok {
					return fmt.Sprintf("loop at %s can be left (via %s) without passing the guard", f.p.pos(f.blockPos(lh)), f.p.pos(f.blockPos(b)))
				}
				continue
			}
			if !seen[n] {
				seen[n] = true
				stack = append(stack, n)
			}
		}
	}
	return ""
}

func (f *FuncFacts) retPos(r *retInfo) token.Pos {
	if r.ins != nil && r.ins.Pos().IsValid() {
		return r.ins.Pos()
	}
	return f.blockPos(r.blk)
}

// isInductionVar: loop phi that starts at 0 and is incremented by 1 on every back edge — the
// index of `for i := 0; i < n; i++`, which is the same loop as `for i := range n`.
func isInductionVar(v ssa.Value) bool {
	k, ok := inductionStart(v)
	return ok && k.Sign() == 0
}

// inductionStart: v is a loop phi that starts at the constant k and is incremented by 1 on every
// back edge: v == k + ‹i›.
func inductionStart(v ssa.Value) (*big.Int, bool) {
	ph, ok := v.(*ssa.Phi)
	if !ok || len(ph.Edges) != 2 {
		return nil, false
	}
	var start *big.Int
	step := false
	for _, e := range ph.Edges {
		e = stripConv(e)
		if k, ok := intConst(e); ok {
			start = k
			continue
		}
		if b, ok := e.(*ssa.BinOp); ok && b.Op == token.ADD {
			x, y := stripConv(b.X), stripConv(b.Y)
			if k, ok := intConst(y); ok && k.IsInt64() && k.Int64() == 1 && x == ssa.Value(ph) {
				step = true
			}
			if k, ok := intConst(x); ok && k.IsInt64() && k.Int64() == 1 && y == ssa.Value(ph) {
				step = true
			}
		}
	}
	if start == nil || !step || !start.IsInt64() || start.Int64() < 0 || start.Int64() > 64 {
		return nil, false
	}
	return start, true
}

// retCode: the code of a return; for forwarded / undecided returns the returned term.
func (f *FuncFacts) retCode(ri *retInfo) string {
	if ri.val == nil {
		return ri.code
	}
	if ri.kind == retForward {
		return "→" + f.c.term(ri.val)
	}
	return f.c.term(ri.val)
}

// boolExits splits an accepting return whose only non-constant boolean result is computed in place
// into the exit that hands back true and the exit that hands back false.
func (f *FuncFacts) boolExits(ri *retInfo, atoms []string, vals []string) []*Guard {
	idx, vi := -1, 0
	var bv ssa.Value
	for i, v := range ri.ins.Results {
		if f.mode == rejErr && i == len(ri.ins.Results)-1 {
			continue
		}
		u := unspill(v, ri.blk)
		if b, ok := u.Type().Underlying().(*types.Basic); ok && b.Kind() == types.Bool {
			if _, isConst := u.(*ssa.Const); !isConst {
				if idx >= 0 {
					return nil
				}
				idx, bv = vi, u
			}
		}
		vi++
	}
	if idx < 0 {
		return nil
	}
	switch bv.(type) {
	case *ssa.BinOp, *ssa.UnOp, *ssa.Phi:
	default:
		return nil // a call result or a loaded flag is a value, not a decision taken here
	}
	var out []*Guard
	for _, want := range []bool{true, false} {
		ps, ok := f.condPaths(bv, want, false, 0)
		if !ok || len(ps) == 0 {
			return nil
		}
		as := append([]string{}, atoms...)
		if len(as) == 1 && as[0] == "always" {
			as = nil
		}
		if len(ps) == 1 {
			as = append(as, ps[0]...)
		}
		as = simplifyAtoms(as)
		if len(as) == 0 {
			as = []string{"always"}
		}
		vs := append([]string{}, vals...)
		vs[idx] = fmt.Sprint(want)
		out = append(out, &Guard{Fn: funcName(f.fn), Atoms: as, Code: "accept <- (" + strings.Join(vs, ", ") + ")", Pos: f.retPos(ri), blk: ri.blk})
	}
	return out
}
