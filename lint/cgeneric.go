package main

// Properties whose check is made of table files only are registered here; the
// ones with additional Go-coded rules have their own file.
func guardsOnly(id, explanation string, files []string, minGuards int, extra func(p *Program, r *Report)) {
	register(&propDef{id: id, explanation: explanation, run: func(p *Program, r *Report) {
		for _, f := range files {
			checkGuardsFile(p, r, f)
		}
		r.need("guard", minGuards)
		if extra != nil {
			extra(p, r)
		}
	}})
}

func init() {
	type g struct {
		id   string
		min  int
		expl string
	}
	const tail = " Decides presence, condition set, rejection code and unavoidability of every rejecting guard, the closed set of accepting exits, and the operands and conditions of every state-changing call/store (effects) in the anchor functions; it does not decide that values computed by pure helpers are numerically right."
	for _, x := range []g{
		{"C02", 40, "Chain selection: connectBestChain/reorganizeChain/getReorganizeNodes/InvalidateBlock/ReconsiderBlock/orphan handling/connectBlock/disconnectBlock have exactly the reviewed guards (most-work comparison strictly greater, invalid-ancestor rejection), exits and effects (SetTip/stateSnapshot only after the committing db.Update, status flag updates)."},
		{"C03", 30, "UTXO fold: the cache and viewpoint connect/disconnect routines, the flag protocol (fresh/modified/spent), writeCache's delete/put/skip switch, spend-journal put/fetch/remove and their use in connectBlock/disconnectBlock have exactly the reviewed guards, exits and effects with operands."},
		{"C04", 45, "Crash-recovery commit order: writeCache/flush write the consistency marker in the same transaction after the entries, connectBlock/disconnectBlock/maybeAcceptBlock persist block, index and best state in the reviewed order, InitConsistentState replays forward from the marker; each as a frozen guard/exit/effect profile plus order rules."},
		{"C05", 60, "ffldb/treap: transaction put/delete/commit/rollback, dbCache flush/commitTx (sync before metadata), block file write/read/rollback, reconcile guards and the cache iterators have exactly the reviewed guards, exits and effects."},
		{"C06", 230, "Script VM: engine stepping and sequencing, every opcode handler, stack and scriptnum accessors, tokenizer, signature/pubkey encoding checks, witness program verification have exactly the reviewed rejecting guards (limits 201/520/1000/10000, multisig bounds, CLTV/CSV rows, MINIMALIF, NULLFAIL, NULLDUMMY, CLEANSTACK, taproot rows), exits and effects."},
		{"C07", 50, "Signature hashes: legacy/BIP143/BIP341 digest functions, midstate cache construction, sig cache and signing helpers have exactly the reviewed guards, exits and effects (every Write into the digest with its operand and condition)."},
		{"C08", 330, "Wire codec: every function of package wire (and btcutil's block/tx wrappers) has exactly the reviewed rejecting guards (canonical varint, count/size bounds, frame checks), exits and effects (every read/write primitive with its operand and protocol-version/encoding condition)."},
		{"C09", 15, "PoW arithmetic skeleton: compact/work functions, retarget (clamps, testnet min-difficulty rule, BIP94 first-block bits, pow-limit cap), easiest difficulty, subsidy and median-time functions have exactly the reviewed guards, exits and effects."},
		{"C11", 100, "secp256k1 front-ends: ECDSA DER parser strictness rows, Schnorr parse/verify/sign skeleton (self-verification of signers), MuSig2 key aggregation/nonce/sign/combine guards and btcec pubkey/ciphering functions have exactly the reviewed guards, exits and effects."},
		{"C12", 12, "Block template generation: NewBlockTemplate's skip conditions (weight, sig-op cost, finality, witness), accounting updates, final CheckConnectBlockTemplate self-check, coinbase/witness-commitment construction and UpdateBlockTime/UpdateExtraNonce have exactly the reviewed guards, exits and effects."},
		{"C13", 28, "Consensus accounting primitives: merkle construction, witness commitment extraction/validation, weight, sig-op counting (blockchain and txscript sides), finality, sequence locks and coinbase height have exactly the reviewed guards, exits and effects."},
		{"C14", 15, "BIP9: thresholdStateTransition's per-state conditions and results, thresholdState's window arithmetic and cache use, deployment checkers, block-version calculation and the deployment starter/ender predicates have exactly the reviewed guards, exits and effects."},
		{"C15", 55, "Persisted records: VLQ, script/amount compression, utxo entry, spend journal, best state and block row codecs (and the v1->v2 upgrade decoders) have exactly the reviewed end-of-data guards, exits and effects (field order and offsets of every put/read)."},
		{"C16", 140, "Address/key/script-template codecs: address decode dispatch, bech32/base58check, hdkeychain derivation and serialisation, WIF, script templates and recognisers, pkscript parsing, taproot tree/control-block functions and the chaincfg registration helpers have exactly the reviewed guards, exits and effects."},
		{"C17", 50, "Block index queries: ancestor/skip-list, chain view tip/fork/locator functions, inventory location and height-range queries, header acceptance have exactly the reviewed argument-range guards, exits and effects."},
		{"C18", 40, "Peer lifecycle: negotiation order, version checks, handler start, queue/out handlers, disconnect and completion signalling in peer.go have exactly the reviewed guards, exits and effects (every channel send/close, go statement and store with its condition)."},
		{"C19", 65, "BIP324 transport: key exchange, handshake (garbage terminator search bound, v1 downgrade rows), packet encrypt/receive (AAD only for the first packet, ignore bit, length rows), rekeying ciphers and ElligatorSwift ECDH entry points have exactly the reviewed guards, exits and effects."},
		{"C20", 40, "Light-client filters: GCS build/match (same hash-and-reduce pipeline), Golomb coding, basic filter contents, bloom add/match/update, merkle block construction and cfindex header chaining have exactly the reviewed guards, exits and effects."},
	} {
		x := x
		if _, ok := props[x.id]; ok {
			continue
		}
		guardsOnly(x.id, x.expl+tail, []string{x.id + ".guards"}, x.min, nil)
	}
}
