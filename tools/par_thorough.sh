#!/bin/bash
# runs the thorough tier of every property, four properties at a time (each uses 6 sub-processes)
cd /verif
run() { c=$1; /usr/bin/time -f "%es" bin/btcdlint check $c --tier thorough > /tmp/thorough.$c.log 2>&1; echo "$c exit=$? $(grep '^property' /tmp/thorough.$c.log) $(tail -1 /tmp/thorough.$c.log)"; }
ids=${@:-C01 C02 C03 C04 C05 C06 C07 C08 C09 C10 C11 C12 C13 C14 C15 C16 C17 C18 C19 C20}
for c in $ids; do
  run $c &
  while [ $(jobs -r | wc -l) -ge 4 ]; do sleep 1; done
done; wait; echo finished
