#!/bin/bash
# Applies each witness/<rule>/<Cxx>-<name>.diff (a small variant with one rule instance broken: a defect
# planted inside a freshly extracted helper, an early return between Lock and Unlock, …) to /repo and
# requires the property's check to fire. Restores /repo afterwards.
cd /verif
git -C /repo diff --quiet || { echo "/repo dirty"; exit 2; }
rc=0
for f in witness/*/*.diff; do s=$(basename $f .diff); p=${s%%-*}
  git -C /repo apply /verif/$f || { echo "$s: patch does not apply"; rc=1; continue; }
  VERIF_EVIDENCE_DIR=/tmp/ev.$$ bin/btcdlint check $p > /tmp/iw.$$ 2>&1; c=$?
  git -C /repo checkout -- . ; git -C /repo clean -fdq
  if [ $c -eq 1 ]; then echo "$s: detected ($(grep -cE '^[^ ]+:[0-9]+: ' /tmp/iw.$$) report lines)"; else echo "$s: NOT detected"; rc=1; fi
done
rm -rf /tmp/iw.$$ /tmp/ev.$$
exit $rc
